/-
  C15 — the connection limit (`src/net/server.rs`): the listener takes a permit from a semaphore
  *before* it accepts, hands the connection to a handler task, and the handler's `Drop` returns the
  permit however the handler ends (client close, protocol error, panic unwinding the task, server
  shutdown). Labelled transition system; core Lean only (the driver executes it).
-/

namespace ConnLimit

/-- why a handler ends -/
inductive Cause where
  | clientClose | protocolError | panic | shutdown
deriving DecidableEq, Repr

structure St where
  max : Nat
  permits : Nat
  /-- the listener holds a permit and is waiting in `accept` -/
  holding : Bool := false
  /-- connected at TCP level, not yet accepted (kernel backlog, FIFO) -/
  pending : List Nat := []
  /-- connections with a running handler -/
  handlers : List Nat := []
deriving Repr, DecidableEq

def init (max : Nat) : St := { max := max, permits := max }

inductive Ev where
  | connect (c : Nat)            -- a client connects
  | acquire                      -- listener: `limit_connections.acquire().await.forget()`
  | accept                       -- listener: `accept()` returns the oldest pending connection
  /-- the accept(2) call fails (`EMFILE`, `ECONNABORTED`, ...): `Listener::accept` sleeps for its back-off and
      tries again, still holding the one permit it took before; `gone` = the failure took the oldest pending
      connection with it (`ECONNABORTED`: the peer had already left) -/
  | acceptFail (gone : Bool)
  | finish (c : Nat) (w : Cause) -- handler of `c` ends: `Drop` adds one permit
deriving Repr

/-- one transition; `none` = the event is not enabled -/
def step (s : St) : Ev → Option St
  | .connect c => some { s with pending := s.pending ++ [c] }
  | .acquire => if !s.holding && s.permits > 0 then some { s with permits := s.permits - 1, holding := true } else none
  | .accept =>
    if s.holding then
      match s.pending with
      | [] => none
      | c :: rest => some { s with holding := false, pending := rest, handlers := s.handlers ++ [c] }
    else none
  | .acceptFail gone =>
    if s.holding then some (if gone then { s with pending := s.pending.tail } else s) else none
  | .finish c _ =>
    if c ∈ s.handlers then some { s with handlers := s.handlers.erase c, permits := s.permits + 1 } else none

def run : St → List Ev → Option St
  | s, [] => some s
  | s, e :: es => match step s e with
    | some s' => run s' es
    | none => none

/-- let the listener run until it blocks (in `acquire` for lack of permits, or in `accept` for
    lack of connections) -/
def settle : Nat → St → St
  | 0, s => s
  | fuel+1, s =>
    match step s .acquire with
    | some s' => settle fuel s'
    | none =>
      match step s .accept with
      | some s' => settle fuel s'
      | none => s

/-- the accounting invariant: every permit is either free, held by the listener, or held by
    exactly one running handler -/
def Inv (s : St) : Prop :=
  s.permits + s.handlers.length + (if s.holding then 1 else 0) = s.max

theorem inv_init (max : Nat) : Inv (init max) := by simp [Inv, init]

theorem step_inv {s s' : St} {e : Ev} (h : Inv s) (hs : step s e = some s') : Inv s' := by
  unfold Inv at *
  cases e with
  | connect c =>
    simp only [step, Option.some.injEq] at hs; subst hs; simpa using h
  | acquire =>
    simp only [step] at hs
    split at hs
    · rename_i hc
      simp only [Option.some.injEq] at hs; subst hs
      simp only [Bool.and_eq_true, Bool.not_eq_eq_eq_not, Bool.not_true, decide_eq_true_eq] at hc
      simp [hc.1] at h ⊢; omega
    · cases hs
  | accept =>
    simp only [step] at hs
    split at hs
    · rename_i hh
      split at hs
      · cases hs
      · simp only [Option.some.injEq] at hs; subst hs
        simp [hh] at h ⊢; omega
    · cases hs
  | acceptFail gone =>
    simp only [step] at hs
    split at hs
    · simp only [Option.some.injEq] at hs; subst hs
      cases gone <;> simpa using h
    · cases hs
  | finish c w =>
    simp only [step] at hs
    split at hs
    · rename_i hm
      simp only [Option.some.injEq] at hs; subst hs
      have hl : (s.handlers.erase c).length = s.handlers.length - 1 := List.length_erase_of_mem hm
      have hpos : 0 < s.handlers.length := List.length_pos_of_mem hm
      simp only [hl]
      omega
    · cases hs

theorem run_inv : ∀ (es : List Ev) {s s' : St}, Inv s → run s es = some s' → Inv s'
  | [], s, s', h, hr => by simp only [run, Option.some.injEq] at hr; subst hr; exact h
  | e :: es, s, s', h, hr => by
    simp only [run] at hr
    cases hs : step s e with
    | none => simp [hs] at hr
    | some s1 => simp only [hs] at hr; exact run_inv es (step_inv h hs) hr

theorem step_max {s s' : St} {e : Ev} (hs : step s e = some s') : s'.max = s.max := by
  cases e <;> simp only [step] at hs
  · simp only [Option.some.injEq] at hs; subst hs; rfl
  · split at hs
    · simp only [Option.some.injEq] at hs; subst hs; rfl
    · cases hs
  · split at hs
    · split at hs
      · cases hs
      · simp only [Option.some.injEq] at hs; subst hs; rfl
    · cases hs
  · split at hs
    · simp only [Option.some.injEq] at hs; subst hs
      split <;> rfl
    · cases hs
  · split at hs
    · simp only [Option.some.injEq] at hs; subst hs; rfl
    · cases hs

theorem run_max : ∀ (es : List Ev) {s s' : St}, run s es = some s' → s'.max = s.max
  | [], s, s', hr => by simp only [run, Option.some.injEq] at hr; subst hr; rfl
  | e :: es, s, s', hr => by
    simp only [run] at hr
    cases hs : step s e with
    | none => simp [hs] at hr
    | some s1 => simp only [hs] at hr; rw [run_max es hr, step_max hs]

end ConnLimit
