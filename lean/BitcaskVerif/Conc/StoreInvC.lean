/-
  C04 — preservation of the safety invariant by `publish` (the linearization point of
  `put` / `delete`): no `get` that holds a read guard on the key's shard exists, so no reader's
  remembered location is invalidated.
-/
import BitcaskVerif.Conc.StoreInvB

namespace CStore

variable {c : Cfg} {s : Sys} {t : Tid}

/-- a thread that holds a read guard reads a key different from the one being published -/
theorem guard_other_key {r : Rec} (hg : guardFree c s (c.shardOf r.key) = true) {t' : Tid}
    {pc : RPc} {k : Key} {rd : Reader} {loc : Loc} {gv : Option Val}
    (hx : s.threads[t']? = some (.gRead pc k rd loc gv)) : k ≠ r.key := by
  have := guardFree_get hg hx
  intro e; subst e
  exact this rfl

theorem SafeInv.publishPut {r : Rec} {loc : Loc} {v : Val} (hm : MutexInv s) (h : SafeInv c s)
    (hth : s.threads[t]? = some (.wAccounted r loc))
    (hg : guardFree c s (c.shardOf r.key) = true) (hv : r.val = some v) (hh : List HEv) :
    SafeInv c { s with
      index := AL.set r.key loc s.index
      amap := AL.set r.key v s.amap
      threads := s.threads.set t (.wPublished .unit)
      hist := hh } := by
  have hoff := hm.no_merge hth rfl (by simp)
  constructor
  · exact h.fresh
  · exact h.activeOk
  · intro k loc' hi
    have hi' : AL.get k (AL.set r.key loc s.index) = some loc' := hi
    rw [AL.get_set] at hi'
    by_cases hk : k = r.key
    · simp only [hk, ↓reduceIte, Option.some.injEq] at hi'
      subst hi'
      obtain ⟨f, a, b⟩ := h.writer t r loc (.inr hth)
      refine ⟨r, v, ⟨f, a, b⟩, hk.symm, hv, ?_⟩
      show AL.get k (AL.set r.key v s.amap) = some v
      rw [hk]; exact AL.get_set_same _ _ _
    · simp only [hk, ↓reduceIte] at hi'
      obtain ⟨r', v', ⟨f, a, b⟩, d, e, g⟩ := h.index k loc' hi'
      refine ⟨r', v', ⟨f, a, b⟩, d, e, ?_⟩
      show AL.get k (AL.set r.key v s.amap) = some v'
      rw [AL.get_set_other hk]; exact g
  · intro k hi
    have hi' : AL.get k (AL.set r.key loc s.index) = none := hi
    rw [AL.get_set] at hi'
    by_cases hk : k = r.key
    · simp [hk] at hi'
    · simp only [hk, ↓reduceIte] at hi'
      show AL.get k (AL.set r.key v s.amap) = none
      rw [AL.get_set_other hk]; exact h.amapDom k hi'
  · refine h.writer.set rfl (fun _ _ x => x) ?_
    intro r' loc' hx
    rcases hx with hx | hx <;> cases hx
  · refine h.guard.set rfl ?_ (by intro _ _ _ _ _ e; cases e)
    intro t' pc k rd loc' gv _ hx
    have hk := guard_other_key hg hx
    exact ⟨AL.get_set_other hk _ _, AL.get_set_other hk _ _⟩
  · intro hon; exact off_on hoff hon
  · intro hon; exact off_on hoff hon
  · intro hon; exact off_on hoff hon
  · intro hon; exact off_on hoff hon
  · intro hon; exact off_on hoff hon
  · intro hfx; exact (h.noFail hfx).set rfl rfl

theorem SafeInv.publishDel {r : Rec} {loc : Loc} (hm : MutexInv s) (h : SafeInv c s)
    (hth : s.threads[t]? = some (.wAccounted r loc))
    (hg : guardFree c s (c.shardOf r.key) = true) (res : Res) (hh : List HEv) :
    SafeInv c { s with
      index := AL.del r.key s.index
      amap := AL.del r.key s.amap
      threads := s.threads.set t (.wPublished res)
      hist := hh } := by
  have hoff := hm.no_merge hth rfl (by simp)
  constructor
  · exact h.fresh
  · exact h.activeOk
  · intro k loc' hi
    have hi' : AL.get k (AL.del r.key s.index) = some loc' := hi
    rw [AL.get_del] at hi'
    by_cases hk : k = r.key
    · simp [hk] at hi'
    · simp only [hk, ↓reduceIte] at hi'
      obtain ⟨r', v', ⟨f, a, b⟩, d, e, g⟩ := h.index k loc' hi'
      refine ⟨r', v', ⟨f, a, b⟩, d, e, ?_⟩
      show AL.get k (AL.del r.key s.amap) = some v'
      rw [AL.get_del_other hk]; exact g
  · intro k hi
    have hi' : AL.get k (AL.del r.key s.index) = none := hi
    show AL.get k (AL.del r.key s.amap) = none
    by_cases hk : k = r.key
    · rw [hk]; exact AL.get_del_same _ _
    · rw [AL.get_del_other hk] at hi' ⊢; exact h.amapDom k hi'
  · refine h.writer.set rfl (fun _ _ x => x) ?_
    intro r' loc' hx
    rcases hx with hx | hx <;> cases hx
  · refine h.guard.set rfl ?_ (by intro _ _ _ _ _ e; cases e)
    intro t' pc k rd loc' gv _ hx
    have hk := guard_other_key hg hx
    exact ⟨AL.get_del_other hk _, AL.get_del_other hk _⟩
  · intro hon; exact off_on hoff hon
  · intro hon; exact off_on hoff hon
  · intro hon; exact off_on hoff hon
  · intro hon; exact off_on hoff hon
  · intro hon; exact off_on hoff hon
  · intro hfx; exact (h.noFail hfx).set rfl rfl

end CStore
