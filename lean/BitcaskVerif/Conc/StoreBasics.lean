/-
  Small facts about records in files, list update and counting, used by the C04 invariants.
-/
import BitcaskVerif.Conc.StoreStepSound

namespace CStore

theorem Rec.size_pos (r : Rec) : 0 < r.size := by unfold Rec.size; omega

theorem csize_append (xs ys : List Rec) : csize (xs ++ ys) = csize xs + csize ys := by
  induction xs with
  | nil => simp [csize]
  | cons x xs ih => simp only [List.cons_append, csize, ih]; omega

theorem recAt_bound {rs : List Rec} {pos : Nat} {r : Rec} (h : recAt rs pos = some r) :
    pos + r.size ≤ csize rs := by
  induction rs generalizing pos with
  | nil => simp [recAt] at h
  | cons x xs ih =>
    simp only [recAt] at h
    split at h
    · rename_i h0; cases h; simp only [csize]; omega
    · split at h
      · cases h
      · have := ih h; simp only [csize]; omega

theorem recAt_append {rs : List Rec} {pos : Nat} {r : Rec} (ys : List Rec)
    (h : recAt rs pos = some r) : recAt (rs ++ ys) pos = some r := by
  induction rs generalizing pos with
  | nil => simp [recAt] at h
  | cons x xs ih =>
    simp only [recAt, List.cons_append] at h ⊢
    split at h
    · rename_i h0; simp [h0] at h ⊢; exact h
    · rename_i h0
      simp only [h0, ↓reduceIte]
      split at h
      · cases h
      · rename_i h1; simp only [h1, ↓reduceIte]; exact ih h

theorem recAt_end (rs : List Rec) (r : Rec) : recAt (rs ++ [r]) (csize rs) = some r := by
  induction rs with
  | nil => simp [recAt, csize]
  | cons x xs ih =>
    have hx := x.size_pos
    simp only [List.cons_append, recAt, csize]
    have h0 : ¬ (x.size + csize xs = 0) := by omega
    have h1 : ¬ (x.size + csize xs < x.size) := by omega
    simp only [h0, h1, ↓reduceIte]
    have : x.size + csize xs - x.size = csize xs := by omega
    rw [this]; exact ih

/-! ### threads: update and counting -/

theorem get_set_thread {l : List TState} {t t' : Tid} {st a : TState}
    (h : (l.set t a)[t']? = some st) : (t' = t ∧ st = a) ∨ (t' ≠ t ∧ l[t']? = some st) := by
  rw [List.getElem?_set] at h
  split at h
  · rename_i heq
    split at h
    · cases h; exact .inl ⟨heq.symm, rfl⟩
    · cases h
  · rename_i hne; exact .inr ⟨fun h' => hne h'.symm, h⟩

theorem get_set_self {l : List TState} {t : Tid} {st a : TState} (h : l[t]? = some st) :
    (l.set t a)[t]? = some a := by
  rw [List.getElem?_set]
  have : t < l.length := by
    cases hlt : decide (t < l.length) with
    | true => simpa using hlt
    | false =>
      have : l.length ≤ t := by simpa using hlt
      rw [List.getElem?_eq_none this] at h; cases h
  simp [this]

theorem get_set_ne {l : List TState} {t t' : Tid} (a : TState) (h : t' ≠ t) :
    (l.set t a)[t']? = l[t']? := by
  rw [List.getElem?_set]
  have : ¬ t = t' := fun h' => h h'.symm
  simp only [this, ↓reduceIte]

theorem countP_set (p : TState → Bool) {l : List TState} {t : Tid} {st : TState} (a : TState)
    (h : l[t]? = some st) :
    (l.set t a).countP p + (if p st then 1 else 0) = l.countP p + (if p a then 1 else 0) := by
  induction l generalizing t with
  | nil => simp at h
  | cons x xs ih =>
    cases t with
    | zero =>
      simp only [List.getElem?_cons_zero, Option.some.injEq] at h; subst h
      simp only [List.set_cons_zero, List.countP_cons]
      omega
    | succ n =>
      simp only [List.getElem?_cons_succ] at h
      have := ih h
      simp only [List.set_cons_succ, List.countP_cons]
      omega

theorem all_set {p : TState → Bool} {l : List TState} {t : Tid} {a : TState}
    (h : l.all p = true) (ha : p a = true) : (l.set t a).all p = true := by
  rw [List.all_eq_true] at h ⊢
  intro x hx
  rcases List.mem_or_eq_of_mem_set hx with h1 | h1
  · exact h x h1
  · subst h1; exact ha

theorem all_get {p : TState → Bool} {l : List TState} {t : Tid} {st : TState}
    (h : l.all p = true) (hg : l[t]? = some st) : p st = true :=
  List.all_eq_true.mp h st (List.mem_of_getElem? hg)

theorem all_of_forall_get {p : TState → Bool} {l : List TState}
    (h : ∀ (t : Nat) (st : TState), l[t]? = some st → p st = true) : l.all p = true := by
  rw [List.all_eq_true]
  intro x hx
  obtain ⟨i, hi, rfl⟩ := List.getElem_of_mem hx
  exact h i _ (List.getElem?_eq_getElem hi)

end CStore
