/-
  C04 — reader-pool accounting: every reader object is in the pool, checked out by exactly one
  `get` that is between `checkout` and `checkin`, or was lost by a `get` that failed.
-/
import BitcaskVerif.Conc.StoreBasics

namespace CStore

def held (s : Sys) : Nat := s.threads.countP TState.holdsReader
def lost (s : Sys) : Nat := s.threads.countP TState.lostReader

def PoolInv (cap : Nat) (s : Sys) : Prop := s.pool.length + held s + lost s = cap

def b2n (b : Bool) : Nat := if b then 1 else 0

theorem Local.readers {c : Cfg} {s : Sys} {st st' : TState} (hl : Local c s st st') :
    b2n st'.holdsReader + b2n st'.lostReader = b2n st.holdsReader + b2n st.lostReader := by
  cases hl <;> rfl

theorem PoolInv.set {cap : Nat} {s s' : Sys} {t : Tid} {st st' : TState}
    (hth : s.threads[t]? = some st) (hthreads : s'.threads = s.threads.set t st')
    (h : s'.pool.length + b2n st'.holdsReader + b2n st'.lostReader + (held s + lost s)
          = cap + (b2n st.holdsReader + b2n st.lostReader)) :
    PoolInv cap s' := by
  unfold PoolInv held lost
  rw [hthreads]
  have h1 := countP_set TState.holdsReader st' hth
  have h2 := countP_set TState.lostReader st' hth
  unfold held lost at h
  unfold b2n at h
  omega

theorem PoolInv.init (cap n : Nat) : PoolInv cap (init cap n) := by
  unfold PoolInv held lost CStore.init
  simp only [List.length_map, List.length_range]
  have h1 : (List.replicate n TState.idle).countP TState.holdsReader = 0 := by
    rw [List.countP_eq_zero]; intro a ha; rw [List.eq_of_mem_replicate ha]; simp [TState.holdsReader]
  have h2 : (List.replicate n TState.idle).countP TState.lostReader = 0 := by
    rw [List.countP_eq_zero]; intro a ha; rw [List.eq_of_mem_replicate ha]; simp [TState.lostReader]
  omega

theorem PoolInv.step {c : Cfg} {cap : Nat} {s s' : Sys} {t : Tid} (h : PoolInv cap s)
    (hs : Step c s t s') : PoolInv cap s' := by
  unfold PoolInv at h
  cases hs with
  | thr st st' hh hth hl =>
    apply PoolInv.set hth rfl
    have := hl.readers
    simp only; omega
  | spin => exact h
  | lock r hth hm => apply PoolInv.set hth rfl; simp only [b2n, TState.holdsReader, TState.lostReader, Bool.false_eq_true, ↓reduceIte]; omega
  | mergeLock sel sel' hth hm hsel =>
    apply PoolInv.set hth rfl; simp only [b2n, TState.holdsReader, TState.lostReader, Bool.false_eq_true, ↓reduceIte]; omega
  | chunkDone r n f hth hf hn hd =>
    apply PoolInv.set hth rfl; simp only [b2n, TState.holdsReader, TState.lostReader, Bool.false_eq_true, ↓reduceIte]; omega
  | chunkPart r n f hth hf hn hd => exact h
  | accountRoll r loc hth hw =>
    apply PoolInv.set hth rfl; simp only [b2n, TState.holdsReader, TState.lostReader, Bool.false_eq_true, ↓reduceIte]; omega
  | accountStay r loc hth hw =>
    apply PoolInv.set hth rfl; simp only [b2n, TState.holdsReader, TState.lostReader, Bool.false_eq_true, ↓reduceIte]; omega
  | publishPut r loc v hth hg hv =>
    apply PoolInv.set hth rfl; simp only [b2n, TState.holdsReader, TState.lostReader, Bool.false_eq_true, ↓reduceIte]; omega
  | publishDel r loc hth hg hv =>
    apply PoolInv.set hth rfl; simp only [b2n, TState.holdsReader, TState.lostReader, Bool.false_eq_true, ↓reduceIte]; omega
  | unlock st res hth hst =>
    apply PoolInv.set hth rfl
    rcases hst with rfl | ⟨rfl, _⟩ <;> simp only [b2n, TState.holdsReader, TState.lostReader, Bool.false_eq_true, ↓reduceIte] <;> omega
  | checkout k rd rest hth hp =>
    apply PoolInv.set hth rfl
    simp only [hp, List.length_cons] at h
    simp only [b2n, TState.holdsReader, TState.lostReader, Bool.false_eq_true, ↓reduceIte]; omega
  | checkin rd v hth =>
    apply PoolInv.set hth rfl
    simp only [b2n, TState.holdsReader, TState.lostReader, List.length_append, List.length_cons,
      List.length_nil, Bool.false_eq_true, ↓reduceIte]; omega
  | enter hth hin hsh hg => exact h
  | copyOk k loc f o wc r hth hin hp hsh hi hsel hf ho hr => exact h
  | copyFail k loc f o wc e hth hin hp hsh hi hsel hf ho hr =>
    apply PoolInv.set hth rfl; simp only [b2n, TState.holdsReader, TState.lostReader, Bool.false_eq_true, ↓reduceIte]; omega
  | repointRoll k nl hth hp hw => exact h
  | repoint k nl hth hp hw => exact h
  | leave hth hin hp hc => exact h
  | unlink f rest hth hin hsh htd => exact h
  | newActive hth hin hsh htd =>
    apply PoolInv.set hth rfl; simp only [b2n, TState.holdsReader, TState.lostReader, Bool.false_eq_true, ↓reduceIte]; omega

end CStore
