/-
  `Listener::accept` (`src/net/server.rs:166-185`): the retry loop around accept(2).  Each call of the
  function starts with `backoff = min_backoff_ms`; a failing accept(2) ends the loop (and with it the
  listener, hence the server) when `backoff > max_backoff_ms`, otherwise the task sleeps `backoff` ms,
  doubles it (`backoff <<= 1` on a `u64`: the top bit is shifted out silently) and tries again.
  Core Lean only (the driver executes `loop`).
-/

namespace AcceptBackoff

inductive Outcome where
  | accepted   -- accept(2) returned a connection
  | gaveUp     -- the error is returned: `listen` ends, `Server::run` returns
  | waiting    -- the outcomes ran out: the task is blocked in accept(2)
deriving DecidableEq, Repr

/-- `u64` shift left by one -/
def shl1 (b : Nat) : Nat := (b * 2) % 2 ^ 64

/-- the loop from the value `b` of `backoff`, against the outcomes of the accept(2) calls
    (`true` = a connection). Result: how it ends, accept(2) calls made, milliseconds slept. -/
def loop (max : Nat) : Nat → List Bool → Outcome × Nat × Nat
  | _, [] => (.waiting, 0, 0)
  | _, true :: _ => (.accepted, 1, 0)
  | b, false :: rest =>
    if b > max then (.gaveUp, 1, 0)
    else
      let r := loop max (shl1 b) rest
      (r.1, r.2.1 + 1, r.2.2 + b)

/-- one call of `Listener::accept` -/
def accept (min max : Nat) (outs : List Bool) : Outcome × Nat × Nat := loop max min outs

theorem shl1_eq {b : Nat} (h : b * 2 < 2 ^ 64) : shl1 b = b * 2 := Nat.mod_eq_of_lt h

/-- `k` failures in a row, none of which finds the back-off above the maximum, then a connection:
    accepted after `k + 1` calls and `b·(2^k − 1)` ms of sleep. -/
theorem loop_fails_then_ok (max : Nat) : ∀ (k b : Nat) (rest : List Bool),
    b * 2 ^ k < 2 ^ 64 → (k = 0 ∨ b * 2 ^ (k - 1) ≤ max) →
    loop max b (List.replicate k false ++ true :: rest) = (.accepted, k + 1, b * (2 ^ k - 1))
  | 0, b, rest, _, _ => by simp [loop]
  | k + 1, b, rest, hw, hm => by
    have hm' : b * 2 ^ k ≤ max := by
      rcases hm with h | h
      · omega
      · simpa using h
    have h2k : 0 < 2 ^ k := Nat.pow_pos (by omega)
    have hb : b ≤ max := by
      have : b * 1 ≤ b * 2 ^ k := Nat.mul_le_mul_left b h2k
      omega
    have hpow : b * 2 ^ (k + 1) = b * 2 * 2 ^ k := by rw [Nat.pow_succ, Nat.mul_assoc, Nat.mul_comm (2 ^ k) 2]
    have hs : shl1 b = b * 2 := by
      apply shl1_eq
      have : b * 2 * 1 ≤ b * 2 * 2 ^ k := Nat.mul_le_mul_left (b * 2) h2k
      omega
    have ih := loop_fails_then_ok max k (b * 2) rest (by omega)
      (by
        cases k with
        | zero => exact .inl rfl
        | succ j =>
          right
          have : b * 2 * 2 ^ (j + 1 - 1) = b * 2 ^ (j + 1) := by
            simp only [Nat.add_sub_cancel]
            rw [Nat.pow_succ, Nat.mul_assoc, Nat.mul_comm 2 (2 ^ j)]
          omega)
    simp only [List.replicate_succ, List.cons_append, loop, Nat.not_lt.mpr hb, if_false, hs, ih]
    have : b * 2 * (2 ^ k - 1) + b = b * (2 ^ (k + 1) - 1) := by
      rw [Nat.pow_succ, Nat.mul_sub, Nat.mul_sub, Nat.mul_one, Nat.mul_one, Nat.mul_assoc, Nat.mul_comm 2 (2 ^ k)]
      have : b * 1 ≤ b * 2 ^ k := Nat.mul_le_mul_left b h2k
      have h3 : b * (2 ^ k * 2) = b * 2 ^ k * 2 := by rw [Nat.mul_assoc]
      omega
    simp [this]

/-- `k` failures in a row that the back-off survives, and then one that finds it above the maximum:
    the listener gives up at call `k + 1`, having slept `b·(2^k − 1)` ms. -/
theorem loop_fails_then_give_up (max : Nat) : ∀ (k b : Nat) (rest : List Bool),
    b * 2 ^ k < 2 ^ 64 → (k = 0 ∨ b * 2 ^ (k - 1) ≤ max) → max < b * 2 ^ k →
    loop max b (List.replicate k false ++ false :: rest) = (.gaveUp, k + 1, b * (2 ^ k - 1))
  | 0, b, rest, _, _, hg => by
    have : b > max := by simpa using hg
    simp [loop, this]
  | k + 1, b, rest, hw, hm, hg => by
    have hm' : b * 2 ^ k ≤ max := by
      rcases hm with h | h
      · omega
      · simpa using h
    have h2k : 0 < 2 ^ k := Nat.pow_pos (by omega)
    have hb : b ≤ max := by
      have : b * 1 ≤ b * 2 ^ k := Nat.mul_le_mul_left b h2k
      omega
    have hpow : b * 2 ^ (k + 1) = b * 2 * 2 ^ k := by rw [Nat.pow_succ, Nat.mul_assoc, Nat.mul_comm (2 ^ k) 2]
    have hs : shl1 b = b * 2 := by
      apply shl1_eq
      have : b * 2 * 1 ≤ b * 2 * 2 ^ k := Nat.mul_le_mul_left (b * 2) h2k
      omega
    have ih := loop_fails_then_give_up max k (b * 2) rest (by omega)
      (by
        cases k with
        | zero => exact .inl rfl
        | succ j =>
          right
          have : b * 2 * 2 ^ (j + 1 - 1) = b * 2 ^ (j + 1) := by
            simp only [Nat.add_sub_cancel]
            rw [Nat.pow_succ, Nat.mul_assoc, Nat.mul_comm 2 (2 ^ j)]
          omega)
      (by omega)
    simp only [List.replicate_succ, List.cons_append, loop, Nat.not_lt.mpr hb, if_false, hs, ih]
    have : b * 2 * (2 ^ k - 1) + b = b * (2 ^ (k + 1) - 1) := by
      rw [Nat.pow_succ, Nat.mul_sub, Nat.mul_sub, Nat.mul_one, Nat.mul_one, Nat.mul_assoc, Nat.mul_comm 2 (2 ^ k)]
      have : b * 1 ≤ b * 2 ^ k := Nat.mul_le_mul_left b h2k
      have h3 : b * (2 ^ k * 2) = b * 2 ^ k * 2 := by rw [Nat.mul_assoc]
      omega
    simp [this]

/-- a minimum back-off of zero never grows: the listener never gives up (and never sleeps) -/
theorem loop_zero_never_gives_up (max : Nat) : ∀ k : Nat,
    loop max 0 (List.replicate k false) = (.waiting, k, 0)
  | 0 => by simp [loop]
  | k + 1 => by
    have ih := loop_zero_never_gives_up max k
    simp [List.replicate_succ, loop, shl1, ih]

/-- the loop gives up only on accept(2) failures: every call it made failed (for every outcome list and start value) -/
theorem loop_gaveUp_prefix_fails (max : Nat) : ∀ (outs : List Bool) (b : Nat),
    (loop max b outs).1 = .gaveUp →
    (loop max b outs).2.1 ≤ outs.length ∧ outs.take (loop max b outs).2.1 = List.replicate (loop max b outs).2.1 false
  | [], b, h => by simp [loop] at h
  | true :: _, b, h => by simp [loop] at h
  | false :: rest, b, h => by
    by_cases hb : b > max
    · simp [loop, hb]
    · simp only [loop, hb, if_false] at h ⊢
      have ih := loop_gaveUp_prefix_fails max rest (shl1 b) h
      refine ⟨by simp; exact ih.1, ?_⟩
      simp [List.take_succ_cons, List.replicate_succ, ih.2]

end AcceptBackoff
