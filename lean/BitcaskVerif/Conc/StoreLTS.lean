/-
  C04 / C11 — the concurrent store as a labelled transition system (core Lean only, executable).

  What is modelled (`src/storage/bitcask.rs`, `src/storage/bitcask/log.rs`):
  * one `Mutex<Writer>` serialising `put` / `delete` / `merge`;
  * a writer's record reaches the active file in chunks (`chunk c`), the index entry is published
    only after the last chunk and after the accounting / roll-over step;
  * the KeyDir is a sharded map: a `get` holds the read guard of its key's shard from `lookup`
    until `release`; `publish` (insert / remove) and the merge's `enterShard` need the shard free
    of read guards, `lookup` needs the shard free of the merge iterator's write lock (both lock
    states are *derived* from the thread states, so they cannot get out of step with them);
  * reader objects live in a bounded pool (`checkout` pops, `checkin` pushes back; a reader object
    carries its own cache fid ↦ mapped length; a failing `get` loses the object);
  * a reader maps a file at the file's current byte length — possibly in the middle of a record
    that is being written — keeps the mapping in its cache and refreshes it only when the remap
    test fires (`Cfg.fixed = true`: `pos + len > mapped`, the code of the day;
    `Cfg.fixed = false`: the pinned `pos ≥ mapped`);
  * merge: takes the mutex, fixes the set of files to merge (any subset of the ids up to the
    active one; larger ids name no file and are dropped), creates the output file, visits the shards in ascending order holding one shard's write
    lock at a time, copies a selected entry (through the writer's own mapping cache, same remap
    test), re-points it, rolls the output over when it exceeds `maxFile`, and only after the last
    shard unlinks the selected files one at a time, then opens a new active file;
  * an unlinked file stays readable through existing mappings but cannot be opened by name.

  Simplifications: keys / values / ids are naturals; a file is its list of complete records plus
  the byte count of the record in progress; a record has `extra + 1` bytes; merge copies whole
  records; LRU eviction is over-approximated (any set of cached mappings may vanish at `ensure`).
  Ghost parts (never read by the transition function's guards): `amap`, `hist`, the `gv` field.
-/
import BitcaskVerif.Base.AL
import BitcaskVerif.Conc.LinTrace

namespace CStore

/- keys, values, file ids and thread ids are naturals (notations, so that `omega` sees `Nat`) -/
scoped notation "Key" => Nat
scoped notation "Val" => Nat
scoped notation "Fid" => Nat
scoped notation "Tid" => Nat

structure Cfg where
  /-- capacity of the reader pool -/
  cap : Nat
  maxFile : Nat
  /-- number of shards minus one -/
  nsh : Nat
  shardFn : Key → Nat
  /-- `true`: remap when `pos + len > mapped`; `false`: the pinned test `pos ≥ mapped` -/
  fixed : Bool

def Cfg.shardOf (c : Cfg) (k : Key) : Nat := c.shardFn k % (c.nsh + 1)

def remapTest (fixed : Bool) (pos len mapped : Nat) : Bool :=
  if fixed then decide (pos + len > mapped) else decide (pos ≥ mapped)

structure Rec where
  key : Key
  /-- `none` = tombstone -/
  val : Option Val
  extra : Nat
deriving DecidableEq, Repr

def Rec.size (r : Rec) : Nat := r.extra + 1

structure Loc where
  fid : Fid
  pos : Nat
  len : Nat
deriving DecidableEq, Repr

structure File where
  recs : List Rec := []
  /-- bytes of the record in progress -/
  part : Nat := 0
  linked : Bool := true
deriving DecidableEq, Repr

def csize : List Rec → Nat
  | [] => 0
  | r :: rs => r.size + csize rs

def File.size (f : File) : Nat := csize f.recs + f.part

/-- the complete record that starts at byte `pos` -/
def recAt : List Rec → Nat → Option Rec
  | [], _ => none
  | r :: rs, pos => if pos = 0 then some r else if pos < r.size then none else recAt rs (pos - r.size)

structure Reader where
  id : Nat
  cache : List (Fid × Nat) := []
deriving DecidableEq, Repr

inductive Op where
  | get (k : Key)
  | put (k : Key) (v : Val) (extra : Nat)
  | del (k : Key) (extra : Nat)
  | merge (sel : List Fid)
deriving DecidableEq, Repr

inductive Res where
  | unit
  | found (v : Option Val)
  | deleted (b : Bool)
deriving DecidableEq, Repr

inductive Fail where
  | sliceOutOfMapping | openUnlinked | garbage | noFile
deriving DecidableEq, Repr

/-- where a reading `get` is: after `lookup`, after `ensure`, after the remap test -/
inductive RPc where
  | looked | ensured | remapped
deriving DecidableEq, Repr

inductive TState where
  | idle
  | wInv (r : Rec)
  | wWriting (r : Rec)
  | wAppended (r : Rec) (loc : Loc)
  | wAccounted (r : Rec) (loc : Loc)
  | wPublished (res : Res)
  | respond (res : Res)
  | gInv (k : Key)
  | gHave (k : Key) (rd : Reader)
  | gRead (pc : RPc) (k : Key) (rd : Reader) (loc : Loc) (gv : Option Val)
  | gSliced (k : Key) (rd : Reader) (v : Option Val)
  | gCheckin (rd : Reader) (v : Option Val)
  | mInv (sel : List Fid)
  | merging
  | mDone
  | failed (f : Fail) (lost : Option Reader)
deriving DecidableEq, Repr

/-- the locals of the (at most one) running merge -/
structure MergeSt where
  on : Bool := false
  sel : List Fid := []
  out : Fid := 0
  /-- shards `< shard` are done; `shard` is the current one while `inShard` -/
  shard : Nat := 0
  inShard : Bool := false
  /-- an entry that was copied but not yet re-pointed -/
  pending : Option (Key × Loc) := none
  todo : List Fid := []
deriving DecidableEq, Repr

/-- ghost history events: invocation, linearization point, response (`Conc/LinTrace.lean`) -/
abbrev HEv := Lin.Ev Op Res

structure Sys where
  files : List (Fid × File) := [(0, {})]
  index : List (Key × Loc) := []
  mutex : Option Tid := none
  pool : List Reader := []
  /-- the writer's own mapping cache (used by merge) -/
  wcache : List (Fid × Nat) := []
  active : Fid := 0
  written : Nat := 0
  mg : MergeSt := {}
  threads : List TState := []
  /-- ghost: the abstract map -/
  amap : List (Key × Val) := []
  /-- ghost: invocations, linearization points, responses; newest first -/
  hist : List HEv := []
deriving Repr

inductive Act where
  | invGet (k : Key) | invPut (k : Key) (v : Val) (extra : Nat) | invDel (k : Key) (extra : Nat)
  | invMerge (sel : List Fid)
  | lock | chunk (c : Nat) | account | publish | unlock | resp
  | checkout | spin | lookup | ensure (evict : List Fid) | remap | slice | release | checkin
  | mEnter | mCopy (k : Key) | mRepoint | mLeave | mUnlink | mNewActive
deriving DecidableEq, Repr

abbrev Event := Tid × Act

def init (cap nthreads : Nat) : Sys :=
  { pool := (List.range cap).map fun i => { id := i }, threads := List.replicate nthreads .idle }

/-! ### derived lock states -/

def TState.guard (c : Cfg) : TState → Option Nat
  | .gRead _ k _ _ _ => some (c.shardOf k)
  | .gSliced k _ _ => some (c.shardOf k)
  | _ => none

/-- no `get` holds a read guard of shard `sh` -/
def guardFree (c : Cfg) (s : Sys) (sh : Nat) : Bool :=
  s.threads.all fun st => decide (st.guard c ≠ some sh)

/-- the merge iterator does not hold the write lock of shard `sh` -/
def wlockFree (s : Sys) (sh : Nat) : Bool :=
  !(s.mg.on && s.mg.inShard && s.mg.shard == sh)

def TState.inCrit : TState → Bool
  | .wWriting _ | .wAppended _ _ | .wAccounted _ _ | .wPublished _ | .merging | .mDone => true
  | _ => false

def TState.holdsReader : TState → Bool
  | .gHave _ _ | .gRead _ _ _ _ _ | .gSliced _ _ _ | .gCheckin _ _ => true
  | _ => false

def TState.lostReader : TState → Bool
  | .failed _ (some _) => true
  | _ => false

def TState.isFailed : TState → Bool
  | .failed _ _ => true
  | _ => false

/-! ### primitives -/

def Sys.setT (s : Sys) (t : Tid) (st : TState) : Sys := { s with threads := s.threads.set t st }

def Sys.file (s : Sys) (fid : Fid) : Option File := AL.get fid s.files

def cacheDrop (cache : List (Fid × Nat)) (evict : List Fid) : List (Fid × Nat) :=
  evict.foldl (fun c f => AL.del f c) cache

def recOp (r : Rec) : Op :=
  match r.val with
  | some v => .put r.key v r.extra
  | none => .del r.key r.extra

/-- what `slice` yields for key `k` at `loc` through a mapping of length `mapped` -/
def sliceAt (f : File) (k : Key) (loc : Loc) (mapped : Nat) : Except Fail Rec :=
  if loc.pos + loc.len ≤ mapped then
    match recAt f.recs loc.pos with
    | some r => if r.size = loc.len ∧ r.key = k then .ok r else .error .garbage
    | none => .error .garbage
  else .error .sliceOutOfMapping

/-- `LogDir::read/copy` on a mapping cache in one go: open + map if not cached, remap test, slice -/
def readThrough (c : Cfg) (f : File) (cache : List (Fid × Nat)) (k : Key) (loc : Loc) :
    List (Fid × Nat) × Except Fail Rec :=
  match AL.get loc.fid cache with
  | none =>
    if f.linked then (AL.set loc.fid f.size cache, sliceAt f k loc f.size)
    else (cache, .error .openUnlinked)
  | some m =>
    let m' := if remapTest c.fixed loc.pos loc.len m then f.size else m
    (AL.set loc.fid m' cache, sliceAt f k loc m')

/-! ### the transition function, one function per action -/

def stInv (s : Sys) (t : Tid) (st : TState) (op : Op) : Sys :=
  { s with threads := s.threads.set t st, hist := .inv t op :: s.hist }

def stLock (s : Sys) (t : Tid) (st : TState) : Option Sys :=
  if s.mutex = none then some { s with mutex := some t, threads := s.threads.set t st } else none

/-- `merge`: take the mutex, fix the set of files to merge (ids that do not name a file of the
    store — anything above the active id — are ignored) and create the first output file -/
def stMergeLock (s : Sys) (t : Tid) (sel : List Fid) : Option Sys :=
  if s.mutex = none then
    let sel' := sel.filter fun f => decide (f ≤ s.active)
    some { s with
      mutex := some t
      files := AL.set (s.active + 1) {} s.files
      mg := { on := true, sel := sel', out := s.active + 1, shard := 0, inShard := false,
              pending := none, todo := sel' }
      threads := s.threads.set t .merging
      hist := .lin t .unit :: s.hist }
  else none

def stChunk (s : Sys) (t : Tid) (r : Rec) (c : Nat) : Option Sys :=
  match s.file s.active with
  | none => some (s.setT t (.failed .noFile none))
  | some f =>
    if 0 < c ∧ f.part + c ≤ r.size then
      if f.part + c = r.size then
        some { s with
          files := AL.set s.active { f with recs := f.recs ++ [r], part := 0 } s.files
          threads := s.threads.set t (.wAppended r ⟨s.active, csize f.recs, r.size⟩) }
      else
        some { s with files := AL.set s.active { f with part := f.part + c } s.files }
    else none

def stAccount (c : Cfg) (s : Sys) (t : Tid) (r : Rec) (loc : Loc) : Sys :=
  if s.written + loc.len > c.maxFile then
    { s with
      files := AL.set (s.active + 1) {} s.files
      active := s.active + 1
      written := 0
      threads := s.threads.set t (.wAccounted r loc) }
  else
    { s with written := s.written + loc.len, threads := s.threads.set t (.wAccounted r loc) }

def stPublish (c : Cfg) (s : Sys) (t : Tid) (r : Rec) (loc : Loc) : Option Sys :=
  if guardFree c s (c.shardOf r.key) = true then
    match r.val with
    | some v =>
      some { s with
        index := AL.set r.key loc s.index
        amap := AL.set r.key v s.amap
        threads := s.threads.set t (.wPublished .unit)
        hist := .lin t .unit :: s.hist }
    | none =>
      let res := Res.deleted (AL.get r.key s.index).isSome
      some { s with
        index := AL.del r.key s.index
        amap := AL.del r.key s.amap
        threads := s.threads.set t (.wPublished res)
        hist := .lin t res :: s.hist }
  else none

def stUnlock (s : Sys) (t : Tid) (res : Res) : Sys :=
  { s with mutex := none, threads := s.threads.set t (.respond res) }

def stResp (s : Sys) (t : Tid) (res : Res) : Sys :=
  { s with threads := s.threads.set t .idle, hist := .resp t res :: s.hist }

def stCheckout (s : Sys) (t : Tid) (k : Key) : Option Sys :=
  match s.pool with
  | [] => none
  | rd :: rest => some { s with pool := rest, threads := s.threads.set t (.gHave k rd) }

def stSpin (s : Sys) : Option Sys :=
  match s.pool with
  | [] => some s
  | _ :: _ => none

def stLookup (c : Cfg) (s : Sys) (t : Tid) (k : Key) (rd : Reader) : Option Sys :=
  if wlockFree s (c.shardOf k) = true then
    match AL.get k s.index with
    | none =>
      some { s with threads := s.threads.set t (.gCheckin rd none), hist := .lin t (.found none) :: s.hist }
    | some loc =>
      some { s with
        threads := s.threads.set t (.gRead .looked k rd loc (AL.get k s.amap))
        hist := .lin t (.found (AL.get k s.amap)) :: s.hist }
  else none

def stEnsure (s : Sys) (t : Tid) (k : Key) (rd : Reader) (loc : Loc) (gv : Option Val)
    (evict : List Fid) : Sys :=
  let cache := cacheDrop rd.cache evict
  match AL.get loc.fid cache with
  | some _ => s.setT t (.gRead .ensured k { rd with cache := cache } loc gv)
  | none =>
    match s.file loc.fid with
    | none => s.setT t (.failed .noFile (some rd))
    | some f =>
      if f.linked then
        s.setT t (.gRead .ensured k { rd with cache := AL.set loc.fid f.size cache } loc gv)
      else s.setT t (.failed .openUnlinked (some rd))

def stRemap (c : Cfg) (s : Sys) (t : Tid) (k : Key) (rd : Reader) (loc : Loc) (gv : Option Val) : Sys :=
  match AL.get loc.fid rd.cache, s.file loc.fid with
  | some m, some f =>
    if remapTest c.fixed loc.pos loc.len m then
      s.setT t (.gRead .remapped k { rd with cache := AL.set loc.fid f.size rd.cache } loc gv)
    else s.setT t (.gRead .remapped k rd loc gv)
  | _, _ => s.setT t (.failed .noFile (some rd))

def stSlice (s : Sys) (t : Tid) (k : Key) (rd : Reader) (loc : Loc) : Sys :=
  match AL.get loc.fid rd.cache, s.file loc.fid with
  | some m, some f =>
    match sliceAt f k loc m with
    | .ok r => s.setT t (.gSliced k rd r.val)
    | .error e => s.setT t (.failed e (some rd))
  | _, _ => s.setT t (.failed .noFile (some rd))

def stCheckin (s : Sys) (t : Tid) (rd : Reader) (v : Option Val) : Sys :=
  { s with pool := s.pool ++ [rd], threads := s.threads.set t (.respond (.found v)) }

def stEnter (c : Cfg) (s : Sys) : Option Sys :=
  if s.mg.inShard = false ∧ s.mg.shard ≤ c.nsh ∧ guardFree c s s.mg.shard = true then
    some { s with mg := { s.mg with inShard := true } }
  else none

def stCopy (c : Cfg) (s : Sys) (t : Tid) (k : Key) : Option Sys :=
  if s.mg.inShard = true ∧ s.mg.pending = none ∧ c.shardOf k = s.mg.shard then
    match AL.get k s.index with
    | none => none
    | some loc =>
      if loc.fid ∈ s.mg.sel then
        match s.file loc.fid, s.file s.mg.out with
        | some f, some o =>
          match readThrough c f s.wcache k loc with
          | (wc, .ok r) =>
            some { s with
              wcache := wc
              files := AL.set s.mg.out { o with recs := o.recs ++ [r] } s.files
              mg := { s.mg with pending := some (k, ⟨s.mg.out, csize o.recs, r.size⟩) } }
          | (wc, .error e) => some { s with wcache := wc, threads := s.threads.set t (.failed e none) }
        | _, _ => some (s.setT t (.failed .noFile none))
      else none
  else none

def stRepoint (c : Cfg) (s : Sys) : Option Sys :=
  match s.mg.pending with
  | none => none
  | some (k, nl) =>
    if nl.pos + nl.len > c.maxFile then
      some { s with
        index := AL.set k nl s.index
        files := AL.set (s.mg.out + 1) {} s.files
        mg := { s.mg with pending := none, out := s.mg.out + 1 } }
    else
      some { s with index := AL.set k nl s.index, mg := { s.mg with pending := none } }

/-- no entry of the current shard still lies in a selected file -/
def shardClean (c : Cfg) (s : Sys) : Bool :=
  s.index.all fun (k, _) =>
    match AL.get k s.index with
    | some loc => decide (c.shardOf k ≠ s.mg.shard ∨ loc.fid ∉ s.mg.sel)
    | none => true

def stLeave (c : Cfg) (s : Sys) : Option Sys :=
  if s.mg.inShard = true ∧ s.mg.pending = none ∧ shardClean c s = true then
    some { s with mg := { s.mg with inShard := false, shard := s.mg.shard + 1 } }
  else none

def unlinkFile (files : List (Fid × File)) (fid : Fid) : List (Fid × File) :=
  match AL.get fid files with
  | some f => AL.set fid { f with linked := false } files
  | none => files

def stUnlink (c : Cfg) (s : Sys) : Option Sys :=
  if s.mg.inShard = false ∧ c.nsh < s.mg.shard then
    match s.mg.todo with
    | [] => none
    | f :: rest => some { s with files := unlinkFile s.files f, mg := { s.mg with todo := rest } }
  else none

def stNewActive (c : Cfg) (s : Sys) (t : Tid) : Option Sys :=
  if s.mg.inShard = false ∧ c.nsh < s.mg.shard ∧ s.mg.todo = [] then
    some { s with
      files := AL.set (s.mg.out + 1) {} s.files
      active := s.mg.out + 1
      written := 0
      mg := { s.mg with on := false }
      threads := s.threads.set t .mDone }
  else none

/-- one transition; `none` = the event is not enabled in `s` -/
def step (c : Cfg) (s : Sys) (e : Event) : Option Sys :=
  match s.threads[e.1]? with
  | none => none
  | some st =>
    match st, e.2 with
    | .idle, .invGet k => some (stInv s e.1 (.gInv k) (.get k))
    | .idle, .invPut k v x => some (stInv s e.1 (.wInv ⟨k, some v, x⟩) (.put k v x))
    | .idle, .invDel k x => some (stInv s e.1 (.wInv ⟨k, none, x⟩) (.del k x))
    | .idle, .invMerge sel => some (stInv s e.1 (.mInv sel) (.merge sel))
    | .wInv r, .lock => stLock s e.1 (.wWriting r)
    | .wWriting r, .chunk n => stChunk s e.1 r n
    | .wAppended r loc, .account => some (stAccount c s e.1 r loc)
    | .wAccounted r loc, .publish => stPublish c s e.1 r loc
    | .wPublished res, .unlock => some (stUnlock s e.1 res)
    | .respond res, .resp => some (stResp s e.1 res)
    | .gInv k, .checkout => stCheckout s e.1 k
    | .gInv _, .spin => stSpin s
    | .gHave k rd, .lookup => stLookup c s e.1 k rd
    | .gRead .looked k rd loc gv, .ensure ev => some (stEnsure s e.1 k rd loc gv ev)
    | .gRead .ensured k rd loc gv, .remap => some (stRemap c s e.1 k rd loc gv)
    | .gRead .remapped k rd loc _, .slice => some (stSlice s e.1 k rd loc)
    | .gSliced _ rd v, .release => some (s.setT e.1 (.gCheckin rd v))
    | .gCheckin rd v, .checkin => some (stCheckin s e.1 rd v)
    | .mInv sel, .lock => stMergeLock s e.1 sel
    | .merging, .mEnter => stEnter c s
    | .merging, .mCopy k => stCopy c s e.1 k
    | .merging, .mRepoint => stRepoint c s
    | .merging, .mLeave => stLeave c s
    | .merging, .mUnlink => stUnlink c s
    | .merging, .mNewActive => stNewActive c s e.1
    | .mDone, .unlock => some (stUnlock s e.1 .unit)
    | _, _ => none

def run (c : Cfg) : Sys → List Event → Option Sys
  | s, [] => some s
  | s, e :: es =>
    match step c s e with
    | some s' => run c s' es
    | none => none

/-- reachable from the initial state with `cap` pooled readers and `n` client threads -/
def Reachable (c : Cfg) (n : Nat) (s : Sys) : Prop := ∃ es, run c (init c.cap n) es = some s

end CStore
