/-
  C04 — every cached mapping (of a pooled reader, of a reader in use, of the writer's own cache)
  is no longer than its file: files only grow, an unlinked file keeps its bytes. Together with
  `c04_safe` (every slice lies inside the mapping) this says that a slice always reads bytes that
  exist, and — complete records being immutable — the bytes of the record the index promised.
-/
import BitcaskVerif.Conc.StoreSafe

namespace CStore

variable {c : Cfg} {s s' : Sys} {t : Tid}

def CacheOK (s : Sys) (cache : List (Nat × Nat)) : Prop :=
  ∀ fid m, AL.get fid cache = some m → ∃ f, s.file fid = some f ∧ m ≤ f.size

def TState.reader : TState → Option Reader
  | .gHave _ rd | .gRead _ _ rd _ _ | .gSliced _ rd _ | .gCheckin rd _ => some rd
  | .failed _ lost => lost
  | _ => none

structure MapInv (s : Sys) : Prop where
  pool : ∀ rd ∈ s.pool, CacheOK s rd.cache
  wcache : CacheOK s s.wcache
  held : ∀ (t : Nat) (st : TState) (rd : Reader), s.threads[t]? = some st → st.reader = some rd →
    CacheOK s rd.cache

/-- every file keeps at least its bytes -/
def SizeGrow (s s' : Sys) : Prop :=
  ∀ fid f, s.file fid = some f → ∃ f', s'.file fid = some f' ∧ f.size ≤ f'.size

theorem CacheOK.grow {cache : List (Nat × Nat)} (hg : SizeGrow s s') (h : CacheOK s cache) :
    CacheOK s' cache := by
  intro fid m hm
  obtain ⟨f, hf, hle⟩ := h fid m hm
  obtain ⟨f', hf', hle'⟩ := hg fid f hf
  exact ⟨f', hf', by omega⟩

theorem SizeGrow.same (h : s'.files = s.files) : SizeGrow s s' := by
  intro fid f hf
  exact ⟨f, by unfold Sys.file at *; rw [h]; exact hf, Nat.le_refl _⟩

theorem SizeGrow.create {fid : Nat} {x : File} (hnone : s.file fid = none)
    (h : s'.files = AL.set fid x s.files) : SizeGrow s s' := by
  intro fid' f hf
  refine ⟨f, ?_, Nat.le_refl _⟩
  unfold Sys.file at *
  rw [h, AL.get_set]
  by_cases hx : fid' = fid
  · subst hx; rw [hnone] at hf; cases hf
  · simp only [hx, ↓reduceIte]; exact hf

theorem SizeGrow.update {fid : Nat} {f0 x : File} (hf0 : s.file fid = some f0)
    (hx : f0.size ≤ x.size) (h : s'.files = AL.set fid x s.files) : SizeGrow s s' := by
  intro fid' f hf
  unfold Sys.file at *
  rw [h, AL.get_set]
  by_cases hx' : fid' = fid
  · subst hx'; rw [hf0] at hf; cases hf
    exact ⟨x, by simp, hx⟩
  · simp only [hx', ↓reduceIte]; exact ⟨f, hf, Nat.le_refl _⟩

theorem SizeGrow.unlink {f0 : Nat} (h : s'.files = unlinkFile s.files f0) : SizeGrow s s' := by
  intro fid f hf
  unfold Sys.file at *
  rw [h]
  unfold unlinkFile
  split
  · rename_i x hx
    rw [AL.get_set]
    by_cases e : fid = f0
    · subst e; rw [hx] at hf; cases hf
      exact ⟨{ f with linked := false }, by simp, Nat.le_refl _⟩
    · simp only [e, ↓reduceIte]; exact ⟨f, hf, Nat.le_refl _⟩
  · exact ⟨f, hf, Nat.le_refl _⟩

theorem step_sizeGrow (hm : MutexInv s) (h : SafeInv c s) (hs : Step c s t s') : SizeGrow s s' := by
  cases hs with
  | thr st st' hh hth hl he => exact SizeGrow.same rfl
  | spin => exact SizeGrow.same rfl
  | lock r hth hmu => exact SizeGrow.same rfl
  | mergeLock sel sel' hth hmu hsel =>
    have hoff : s.mg.on = false := by
      cases hon : s.mg.on with
      | false => rfl
      | true => obtain ⟨_, _, hx, _⟩ := hm.mergeOn hon; rw [hmu] at hx; cases hx
    exact SizeGrow.create (h.fresh (s.active + 1) (by rw [top_off hoff]; omega)) rfl
  | chunkDone r n f hth hf hn hd =>
    refine SizeGrow.update hf ?_ rfl
    simp only [File.size, csize_append, csize]; omega
  | chunkPart r n f hth hf hn hd =>
    refine SizeGrow.update hf ?_ rfl
    simp only [File.size]; omega
  | accountRoll r loc hth hw =>
    have hoff := hm.no_merge hth rfl (by simp)
    exact SizeGrow.create (h.fresh (s.active + 1) (by rw [top_off hoff]; omega)) rfl
  | accountStay r loc hth hw => exact SizeGrow.same rfl
  | publishPut r loc v hth hg hv => exact SizeGrow.same rfl
  | publishDel r loc hth hg hv => exact SizeGrow.same rfl
  | unlock st res hth hst => exact SizeGrow.same rfl
  | checkout k rd rest hth hp => exact SizeGrow.same rfl
  | checkin rd v hth => exact SizeGrow.same rfl
  | enter hth hin hsh hg => exact SizeGrow.same rfl
  | copyOk k loc f o wc r hth hin hp hsh hi hsel hf ho hr =>
    refine SizeGrow.update ho ?_ rfl
    simp only [File.size, csize_append]; omega
  | copyFail k loc f o wc e hth hin hp hsh hi hsel hf ho hr => exact SizeGrow.same rfl
  | repointRoll k nl hth hp hw =>
    have hon := hm.mergeOff t hth
    exact SizeGrow.create (h.fresh (s.mg.out + 1) (by rw [top_on hon]; omega)) rfl
  | repoint k nl hth hp hw => exact SizeGrow.same rfl
  | leave hth hin hp hc => exact SizeGrow.same rfl
  | unlink f rest hth hin hsh htd => exact SizeGrow.unlink rfl
  | newActive hth hin hsh htd =>
    have hon := hm.mergeOff t hth
    exact SizeGrow.create (h.fresh (s.mg.out + 1) (by rw [top_on hon]; omega)) rfl

/-! ### cache updates -/

theorem cacheDrop_get {cache : List (Nat × Nat)} {ev : List Nat} {fid m : Nat}
    (h : AL.get fid (cacheDrop cache ev) = some m) : AL.get fid cache = some m := by
  unfold cacheDrop at h
  induction ev generalizing cache with
  | nil => exact h
  | cons e es ih =>
    simp only [List.foldl_cons] at h
    have := ih h
    rw [AL.get_del] at this
    split at this
    · cases this
    · exact this

theorem CacheOK.drop {cache : List (Nat × Nat)} (ev : List Nat) (h : CacheOK s cache) :
    CacheOK s (cacheDrop cache ev) :=
  fun fid m hm => h fid m (cacheDrop_get hm)

theorem CacheOK.set {cache : List (Nat × Nat)} {fid m : Nat} {f : File} (h : CacheOK s cache)
    (hf : s.file fid = some f) (hm : m ≤ f.size) : CacheOK s (AL.set fid m cache) := by
  intro fid' m' hg
  rw [AL.get_set] at hg
  by_cases e : fid' = fid
  · simp only [e, ↓reduceIte, Option.some.injEq] at hg
    subst hg; rw [e]; exact ⟨f, hf, hm⟩
  · simp only [e, ↓reduceIte] at hg; exact h fid' m' hg

theorem readThrough_cache {f : File} {cache wc : List (Nat × Nat)} {k : Nat} {loc : Loc}
    {res : Except Fail Rec} (h : CacheOK s cache) (hf : s.file loc.fid = some f)
    (hr : readThrough c f cache k loc = (wc, res)) : CacheOK s wc := by
  unfold readThrough at hr
  split at hr
  · split at hr
    · simp only [Prod.mk.injEq] at hr; rw [← hr.1]; exact h.set hf (Nat.le_refl _)
    · simp only [Prod.mk.injEq] at hr; rw [← hr.1]; exact h
  · rename_i m hm
    simp only [Prod.mk.injEq] at hr
    rw [← hr.1]
    obtain ⟨f', hf', hle⟩ := h _ _ hm
    rw [hf] at hf'; cases hf'
    apply h.set hf
    split
    · exact Nat.le_refl _
    · exact hle

/-! ### preservation -/

theorem MapInv.set {st st' : TState} (h : MapInv s) (hg : SizeGrow s s')
    (hth : s.threads[t]? = some st) (hthreads : s'.threads = s.threads.set t st')
    (hpool : ∀ rd ∈ s'.pool, rd ∈ s.pool ∨ st.reader = some rd)
    (hw : CacheOK s' s'.wcache)
    (hnew : ∀ rd', st'.reader = some rd' → CacheOK s' rd'.cache) : MapInv s' := by
  refine ⟨?_, hw, ?_⟩
  · intro rd hrd
    rcases hpool rd hrd with h1 | h1
    · exact (h.pool rd h1).grow hg
    · exact (h.held t st rd hth h1).grow hg
  · intro t' x rd hx hr
    rw [hthreads] at hx
    rcases get_set_thread hx with ⟨_, rfl⟩ | ⟨_, hx'⟩
    · exact hnew rd hr
    · exact (h.held t' x rd hx' hr).grow hg

theorem MapInv.same (h : MapInv s) (hg : SizeGrow s s') (hthreads : s'.threads = s.threads)
    (hpool : s'.pool = s.pool) (hw : CacheOK s' s'.wcache) : MapInv s' := by
  refine ⟨?_, hw, ?_⟩
  · intro rd hrd; rw [hpool] at hrd; exact (h.pool rd hrd).grow hg
  · intro t' x rd hx hr; rw [hthreads] at hx; exact (h.held t' x rd hx hr).grow hg

theorem Local.reader {st st' : TState} (h : MapInv s) (hth : s.threads[t]? = some st)
    (hl : Local c s st st') : ∀ rd', st'.reader = some rd' → CacheOK s rd'.cache := by
  intro rd' hr
  cases hl with
  | ensureCached k rd loc gv ev m hc =>
    cases hr; exact (h.held t _ rd hth rfl).drop ev
  | ensureOpen k rd loc gv ev f hc hf hlk =>
    cases hr; exact ((h.held t _ rd hth rfl).drop ev).set hf (Nat.le_refl _)
  | remapFire k rd loc gv m f hc hf ht =>
    cases hr; exact (h.held t _ rd hth rfl).set hf (Nat.le_refl _)
  | invGet k => cases hr
  | invW r => cases hr
  | invMerge sel => cases hr
  | resp res => cases hr
  | chunkNoFile r hf => cases hr
  | copyNoFile k loc hin hp hi hno => cases hr
  | _ => cases hr; exact h.held t _ _ hth rfl

theorem MapInv.step (hm : MutexInv s) (hsafe : SafeInv c s) (h : MapInv s) (hs : Step c s t s') :
    MapInv s' := by
  have hg := step_sizeGrow hm hsafe hs
  cases hs with
  | thr st st' hh hth hl he =>
    exact h.set hg hth rfl (fun rd hrd => .inl hrd) h.wcache (Local.reader (s := s) h hth hl)
  | spin => exact h
  | lock r hth hmu =>
    exact h.set hg hth rfl (fun rd hrd => .inl hrd) h.wcache (by intro rd' hr; cases hr)
  | mergeLock sel sel' hth hmu hsel =>
    exact h.set hg hth rfl (fun rd hrd => .inl hrd) (h.wcache.grow hg) (by intro rd' hr; cases hr)
  | chunkDone r n f hth hf hn hd =>
    exact h.set hg hth rfl (fun rd hrd => .inl hrd) (h.wcache.grow hg) (by intro rd' hr; cases hr)
  | chunkPart r n f hth hf hn hd => exact h.same hg rfl rfl (h.wcache.grow hg)
  | accountRoll r loc hth hw =>
    exact h.set hg hth rfl (fun rd hrd => .inl hrd) (h.wcache.grow hg) (by intro rd' hr; cases hr)
  | accountStay r loc hth hw =>
    exact h.set hg hth rfl (fun rd hrd => .inl hrd) h.wcache (by intro rd' hr; cases hr)
  | publishPut r loc v hth hg' hv =>
    exact h.set hg hth rfl (fun rd hrd => .inl hrd) h.wcache (by intro rd' hr; cases hr)
  | publishDel r loc hth hg' hv =>
    exact h.set hg hth rfl (fun rd hrd => .inl hrd) h.wcache (by intro rd' hr; cases hr)
  | unlock st res hth hst =>
    exact h.set hg hth rfl (fun rd hrd => .inl hrd) h.wcache (by intro rd' hr; cases hr)
  | checkout k rd rest hth hp =>
    refine h.set hg hth rfl ?_ h.wcache ?_
    · intro rd' hrd; left; rw [hp]; exact List.mem_cons_of_mem _ hrd
    · intro rd' hr; cases hr; exact h.pool rd (by rw [hp]; exact List.mem_cons_self)
  | checkin rd v hth =>
    refine h.set hg hth rfl ?_ h.wcache (by intro rd' hr; cases hr)
    intro rd' hrd
    rcases List.mem_append.mp hrd with h1 | h1
    · exact .inl h1
    · simp only [List.mem_singleton] at h1; subst h1; exact .inr rfl
  | enter hth hin hsh hg' => exact h.same hg rfl rfl h.wcache
  | copyOk k loc f o wc r hth hin hp hsh hi hsel hf ho hr =>
    exact h.same hg rfl rfl ((readThrough_cache h.wcache hf hr).grow hg)
  | copyFail k loc f o wc e hth hin hp hsh hi hsel hf ho hr =>
    exact h.set hg hth rfl (fun rd hrd => .inl hrd) ((readThrough_cache h.wcache hf hr).grow hg)
      (by intro rd' hr'; cases hr')
  | repointRoll k nl hth hp hw => exact h.same hg rfl rfl (h.wcache.grow hg)
  | repoint k nl hth hp hw => exact h.same hg rfl rfl h.wcache
  | leave hth hin hp hc => exact h.same hg rfl rfl h.wcache
  | unlink f rest hth hin hsh htd => exact h.same hg rfl rfl (h.wcache.grow hg)
  | newActive hth hin hsh htd =>
    exact h.set hg hth rfl (fun rd hrd => .inl hrd) (h.wcache.grow hg) (by intro rd' hr; cases hr)

theorem MapInv.init (cap n : Nat) : MapInv (init cap n) := by
  refine ⟨?_, ?_, ?_⟩
  · intro rd hrd
    simp only [CStore.init, List.mem_map] at hrd
    obtain ⟨i, _, rfl⟩ := hrd
    intro fid m hm; cases hm
  · intro fid m hm; cases hm
  · intro t st rd hx hr
    rw [init_idle hx] at hr; cases hr

theorem MapInv.reachable {n : Nat} (h : Reachable c n s) : MapInv s := by
  obtain ⟨es, hr⟩ := h
  have : Inv c s ∧ MapInv s := by
    refine run_induct (P := fun s => Inv c s ∧ MapInv s) ?_ es _ s
      ⟨Inv.init c n, MapInv.init _ _⟩ hr
    intro s t s' hi hs
    exact ⟨hi.1.step hs, hi.2.step hi.1.mutex hi.1.safe hs⟩
  exact this.2

end CStore
