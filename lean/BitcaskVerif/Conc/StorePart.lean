/-
  C04 — the record in progress: only the active file can hold an incomplete record, and only
  while a writer is between its first and its last chunk; the incomplete part is shorter than
  the record. (Needed for progress: the writer's next chunk is always possible.)
-/
import BitcaskVerif.Conc.StoreSafe

namespace CStore

variable {c : Cfg} {s s' : Sys} {t : Tid}

def PartInv (s : Sys) : Prop :=
  ∀ fid f, s.file fid = some f →
    f.part = 0 ∨ (fid = s.active ∧ ∃ (t : Nat) (r : Rec), s.threads[t]? = some (.wWriting r) ∧ f.part < r.size)

theorem PartInv.init (cap n : Nat) : PartInv (init cap n) := by
  intro fid f hf
  left
  have hf' : AL.get fid [((0 : Nat), ({} : File))] = some f := hf
  simp only [AL.get] at hf'
  split at hf'
  · cases hf'; rfl
  · cases hf'

/-- only thread `t` changes, and it was not writing chunks -/
theorem PartInv.set_other {st st' : TState} (h : PartInv s) (hth : s.threads[t]? = some st)
    (hthreads : s'.threads = s.threads.set t st') (hfiles : s'.files = s.files)
    (hactive : s'.active = s.active) (hst : ∀ r, st ≠ .wWriting r) : PartInv s' := by
  intro fid f hf
  unfold Sys.file at hf
  rw [hfiles] at hf
  rcases h fid f hf with h0 | ⟨ha, t0, r, ht0, hlt⟩
  · exact .inl h0
  · right
    refine ⟨by rw [hactive]; exact ha, t0, r, ?_, hlt⟩
    rw [hthreads, get_set_ne]
    · exact ht0
    · intro e; subst e; rw [hth] at ht0; cases ht0; exact hst r rfl

/-- nothing relevant changes -/
theorem PartInv.same (h : PartInv s) (hthreads : s'.threads = s.threads) (hfiles : s'.files = s.files)
    (hactive : s'.active = s.active) : PartInv s' := by
  intro fid f hf
  unfold Sys.file at hf
  rw [hfiles] at hf
  rw [hthreads, hactive]
  exact h fid f hf

/-- while thread `t` is inside the mutex but not writing chunks, no file has a record in progress -/
theorem PartInv.zero_of_crit {st : TState} (h : PartInv s) (hm : MutexInv s)
    (hth : s.threads[t]? = some st) (hc : st.inCrit = true) (hst : ∀ r, st ≠ .wWriting r)
    {fid : Nat} {f : File} (hf : s.file fid = some f) : f.part = 0 := by
  rcases h fid f hf with h0 | ⟨_, t0, r, ht0, _⟩
  · exact h0
  · have := hm.unique ht0 hth rfl hc
    subst this
    rw [hth] at ht0; cases ht0; exact absurd rfl (hst r)

/-- a step by a thread inside the mutex (not writing chunks) that creates empty files, appends
    complete records or unlinks, and possibly moves the active id -/
theorem PartInv.crit {st : TState} (h : PartInv s) (hm : MutexInv s)
    (hth : s.threads[t]? = some st) (hc : st.inCrit = true) (hst : ∀ r, st ≠ .wWriting r)
    (hfiles : ∀ fid f', s'.file fid = some f' → f'.part = 0 ∨ ∃ f, s.file fid = some f ∧ f.part = f'.part) :
    PartInv s' := by
  intro fid f' hf'
  left
  rcases hfiles fid f' hf' with h0 | ⟨f, hf, hp⟩
  · exact h0
  · rw [← hp]; exact h.zero_of_crit hm hth hc hst hf

theorem file_set_cases {files : List (Nat × File)} {fid fid' : Nat} {x f' : File}
    (h : AL.get fid' (AL.set fid x files) = some f') :
    (fid' = fid ∧ f' = x) ∨ (fid' ≠ fid ∧ AL.get fid' files = some f') := by
  rw [AL.get_set] at h
  by_cases e : fid' = fid
  · simp only [e, ↓reduceIte, Option.some.injEq] at h; exact .inl ⟨e, h.symm⟩
  · simp only [e, ↓reduceIte] at h; exact .inr ⟨e, h⟩

theorem file_unlink_cases {files : List (Nat × File)} {f0 fid : Nat} {f' : File}
    (h : AL.get fid (unlinkFile files f0) = some f') :
    ∃ f, AL.get fid files = some f ∧ f.part = f'.part := by
  unfold unlinkFile at h
  split at h
  · rename_i x hx
    rcases file_set_cases h with ⟨e, rfl⟩ | ⟨_, h'⟩
    · exact ⟨x, by rw [e]; exact hx, rfl⟩
    · exact ⟨f', h', rfl⟩
  · exact ⟨f', h, rfl⟩

theorem PartInv.step (h : PartInv s) (hm : MutexInv s) (hs : Step c s t s') : PartInv s' := by
  cases hs with
  | thr st st' hh hth hl he =>
    by_cases hw : ∃ r, st = .wWriting r
    · obtain ⟨r, rfl⟩ := hw
      cases hl with
      | chunkNoFile r hf =>
        intro fid f hf'
        have hf'' : s.file fid = some f := hf'
        rcases h fid f hf'' with h0 | ⟨ha, _⟩
        · exact .inl h0
        · rw [ha, hf] at hf''; cases hf''
    · exact h.set_other hth rfl rfl rfl (fun r e => hw ⟨r, e⟩)
  | spin => exact h
  | lock r hth hmu => exact h.set_other hth rfl rfl rfl (by intro r e; cases e)
  | mergeLock sel sel' hth hmu hsel =>
    intro fid f' hf'
    rcases file_set_cases hf' with ⟨_, rfl⟩ | ⟨_, hold⟩
    · exact .inl rfl
    · rcases h fid f' hold with h0 | ⟨ha, t0, r, ht0, hlt⟩
      · exact .inl h0
      · right
        refine ⟨ha, t0, r, ?_, hlt⟩
        show (s.threads.set t .merging)[t0]? = _
        rw [get_set_ne]
        · exact ht0
        · intro e; subst e; rw [hth] at ht0; cases ht0
  | chunkDone r n f hth hf hn hd =>
    intro fid f' hf'
    rcases file_set_cases hf' with ⟨_, rfl⟩ | ⟨hne, hold⟩
    · exact .inl rfl
    · rcases h fid f' hold with h0 | ⟨ha, _⟩
      · exact .inl h0
      · exact absurd ha hne
  | chunkPart r n f hth hf hn hd =>
    intro fid f' hf'
    rcases file_set_cases hf' with ⟨e, rfl⟩ | ⟨hne, hold⟩
    · exact .inr ⟨e, t, r, hth, hd⟩
    · rcases h fid f' hold with h0 | ⟨ha, _⟩
      · exact .inl h0
      · exact absurd ha hne
  | accountRoll r loc hth hw =>
    refine h.crit hm hth rfl (by intro r e; cases e) ?_
    intro fid f' hf'
    rcases file_set_cases hf' with ⟨_, rfl⟩ | ⟨_, hold⟩
    · exact .inl rfl
    · exact .inr ⟨f', hold, rfl⟩
  | accountStay r loc hth hw => exact h.set_other hth rfl rfl rfl (by intro r e; cases e)
  | publishPut r loc v hth hg hv => exact h.set_other hth rfl rfl rfl (by intro r e; cases e)
  | publishDel r loc hth hg hv => exact h.set_other hth rfl rfl rfl (by intro r e; cases e)
  | unlock st res hth hst =>
    exact h.set_other hth rfl rfl rfl (by intro r e; rcases hst with rfl | ⟨rfl, _⟩ <;> cases e)
  | checkout k rd rest hth hp => exact h.set_other hth rfl rfl rfl (by intro r e; cases e)
  | checkin rd v hth => exact h.set_other hth rfl rfl rfl (by intro r e; cases e)
  | enter hth hin hsh hg => exact h.same rfl rfl rfl
  | copyOk k loc f o wc r hth hin hp hsh hi hsel hf ho hr =>
    refine h.crit hm hth rfl (by intro r e; cases e) ?_
    intro fid f' hf'
    rcases file_set_cases hf' with ⟨e, rfl⟩ | ⟨_, hold⟩
    · exact .inr ⟨o, by rw [e]; exact ho, rfl⟩
    · exact .inr ⟨f', hold, rfl⟩
  | copyFail k loc f o wc e hth hin hp hsh hi hsel hf ho hr =>
    exact h.set_other hth rfl rfl rfl (by intro r e; cases e)
  | repointRoll k nl hth hp hw =>
    refine h.crit hm hth rfl (by intro r e; cases e) ?_
    intro fid f' hf'
    rcases file_set_cases hf' with ⟨_, rfl⟩ | ⟨_, hold⟩
    · exact .inl rfl
    · exact .inr ⟨f', hold, rfl⟩
  | repoint k nl hth hp hw => exact h.same rfl rfl rfl
  | leave hth hin hp hc => exact h.same rfl rfl rfl
  | unlink f rest hth hin hsh htd =>
    refine h.crit hm hth rfl (by intro r e; cases e) ?_
    intro fid f' hf'
    exact .inr (file_unlink_cases hf')
  | newActive hth hin hsh htd =>
    refine h.crit hm hth rfl (by intro r e; cases e) ?_
    intro fid f' hf'
    rcases file_set_cases hf' with ⟨_, rfl⟩ | ⟨_, hold⟩
    · exact .inl rfl
    · exact .inr ⟨f', hold, rfl⟩

theorem PartInv.reachable {n : Nat} (h : Reachable c n s) : PartInv s := by
  obtain ⟨es, hr⟩ := h
  have : MutexInv s ∧ PartInv s := by
    refine run_induct (P := fun s => MutexInv s ∧ PartInv s) ?_ es _ s
      ⟨MutexInv.init _ _, PartInv.init _ _⟩ hr
    intro s t s' hi hs
    exact ⟨hi.1.step hs, hi.2.step hi.1 hs⟩
  exact this.2

end CStore
