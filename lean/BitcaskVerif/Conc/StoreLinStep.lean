/-
  C04 — the linearizability simulation is preserved by every step; consequences for reachable
  states.
-/
import BitcaskVerif.Conc.StoreLin

namespace CStore

open Lin (Scan TSt)

variable {c : Cfg} {s s' : Sys} {t : Tid} {m : AMap} {th : Nat → TSt Op Res}

theorem LinInv.thr {st st' : TState} (h : LinInv s m th) (hsafe : SafeInv c s)
    (hth : s.threads[t]? = some st) (hl : Local c s st st') :
    ∃ m' th', LinInv { s with threads := s.threads.set t st', hist := histAfter t st st' s.hist } m' th' := by
  cases hl with
  | invGet k => exact h.invoke (op := .get k) hth rfl rfl rfl rfl
  | invW r => exact h.invoke (op := recOp r) hth rfl rfl rfl rfl
  | invMerge sel => exact h.invoke (op := .merge sel) hth rfl rfl rfl rfl
  | resp res => exact h.respond hth rfl rfl rfl
  | lookupMiss k rd hw hi =>
    refine h.linearize (op := .get k) (res := .found none) hth rfl rfl rfl ?_ h.amap rfl
    show Res.found (m k) = .found none
    rw [h.amap, hsafe.amapDom k hi]
  | lookupHit k rd loc hw hi =>
    refine h.linearize (op := .get k) (res := .found (AL.get k s.amap)) hth rfl rfl rfl ?_ h.amap rfl
    show Res.found (m k) = .found (AL.get k s.amap)
    rw [h.amap]
  | ensureCached k rd loc gv ev mm hc => exact ⟨m, th, h.set hth rfl rfl rfl (Rel.keep rfl rfl rfl (by simp))⟩
  | ensureOpen k rd loc gv ev f hc hf hlk => exact ⟨m, th, h.set hth rfl rfl rfl (Rel.keep rfl rfl rfl (by simp))⟩
  | ensureNoFile k rd loc gv ev hc hf => exact ⟨m, th, h.set hth rfl rfl rfl (fun ts _ => Rel.failed _ _ ts)⟩
  | ensureUnlinked k rd loc gv ev f hc hf hlk => exact ⟨m, th, h.set hth rfl rfl rfl (fun ts _ => Rel.failed _ _ ts)⟩
  | remapFire k rd loc gv mm f hc hf ht => exact ⟨m, th, h.set hth rfl rfl rfl (Rel.keep rfl rfl rfl (by simp))⟩
  | remapKeep k rd loc gv mm f hc hf ht => exact ⟨m, th, h.set hth rfl rfl rfl (Rel.keep rfl rfl rfl (by simp))⟩
  | remapNoFile k rd loc gv hno => exact ⟨m, th, h.set hth rfl rfl rfl (fun ts _ => Rel.failed _ _ ts)⟩
  | sliceOk k rd loc gv mm f r hc hf hs =>
    have hv : r.val = gv := by
      obtain ⟨f', r', hf', _, hr', _, _, hv', _⟩ := hsafe.guard_record hth
      rw [hf] at hf'; cases hf'
      rw [(sliceAt_ok_inv hs).1] at hr'; cases hr'
      exact hv'
    exact ⟨m, th, h.set hth rfl rfl rfl (Rel.keep rfl rfl (by simp [TState.result, hv]) (by simp))⟩
  | sliceErr k rd loc gv mm f e hc hf hs => exact ⟨m, th, h.set hth rfl rfl rfl (fun ts _ => Rel.failed _ _ ts)⟩
  | sliceNoFile k rd loc gv hno => exact ⟨m, th, h.set hth rfl rfl rfl (fun ts _ => Rel.failed _ _ ts)⟩
  | release k rd v => exact ⟨m, th, h.set hth rfl rfl rfl (Rel.keep rfl rfl rfl (by simp))⟩
  | chunkNoFile r hf => exact ⟨m, th, h.set hth rfl rfl rfl (fun ts _ => Rel.failed _ _ ts)⟩
  | copyNoFile k loc hin hp hi hno => exact ⟨m, th, h.set hth rfl rfl rfl (fun ts _ => Rel.failed _ _ ts)⟩

theorem LinInv.step (h : LinInv s m th) (hsafe : SafeInv c s) (hs : Step c s t s') :
    ∃ m' th', LinInv s' m' th' := by
  cases hs with
  | thr st st' hh hth hl he => subst he; exact h.thr hsafe hth hl
  | spin => exact ⟨m, th, h⟩
  | lock r hth hmu => exact ⟨m, th, h.set hth rfl rfl rfl (Rel.keep rfl rfl rfl (by simp))⟩
  | mergeLock sel sel' hth hmu hsel =>
    exact h.linearize (op := .merge sel) (res := .unit) hth rfl rfl rfl rfl h.amap rfl
  | chunkDone r n f hth hf hn hd => exact ⟨m, th, h.set hth rfl rfl rfl (Rel.keep rfl rfl rfl (by simp))⟩
  | chunkPart r n f hth hf hn hd => exact ⟨m, th, h.same rfl rfl rfl⟩
  | accountRoll r loc hth hw => exact ⟨m, th, h.set hth rfl rfl rfl (Rel.keep rfl rfl rfl (by simp))⟩
  | accountStay r loc hth hw => exact ⟨m, th, h.set hth rfl rfl rfl (Rel.keep rfl rfl rfl (by simp))⟩
  | publishPut r loc v hth hg hv =>
    have hop : recOp r = .put r.key v r.extra := by unfold recOp; rw [hv]
    refine h.linearize (op := .put r.key v r.extra) (res := .unit) hth
      (by simp [TState.pendingOp, hop]) rfl rfl rfl ?_ rfl
    intro k
    show (if k = r.key then some v else m k) = AL.get k (AL.set r.key v s.amap)
    rw [AL.get_set, h.amap]
  | publishDel r loc hth hg hv =>
    have hop : recOp r = .del r.key r.extra := by unfold recOp; rw [hv]
    have hsome : (m r.key).isSome = (AL.get r.key s.index).isSome := by
      rw [h.amap]
      cases hi : AL.get r.key s.index with
      | none => rw [hsafe.amapDom _ hi]; rfl
      | some l =>
        obtain ⟨_, v, _, _, _, hm⟩ := hsafe.index _ _ hi
        rw [hm]; rfl
    refine h.linearize (op := .del r.key r.extra) (res := .deleted (AL.get r.key s.index).isSome) hth
      (by simp [TState.pendingOp, hop]) rfl rfl ?_ ?_ rfl
    · show Res.deleted (m r.key).isSome = _
      rw [hsome]
    · intro k
      show (if k = r.key then none else m k) = AL.get k (AL.del r.key s.amap)
      rw [AL.get_del, h.amap]
  | unlock st res hth hst =>
    rcases hst with rfl | ⟨rfl, rfl⟩
    · exact ⟨m, th, h.set hth rfl rfl rfl (Rel.keep rfl rfl rfl (by simp))⟩
    · exact ⟨m, th, h.set hth rfl rfl rfl (Rel.keep rfl rfl rfl (by simp))⟩
  | checkout k rd rest hth hp => exact ⟨m, th, h.set hth rfl rfl rfl (Rel.keep rfl rfl rfl (by simp))⟩
  | checkin rd v hth => exact ⟨m, th, h.set hth rfl rfl rfl (Rel.keep rfl rfl rfl (by simp))⟩
  | enter hth hin hsh hg => exact ⟨m, th, h.same rfl rfl rfl⟩
  | copyOk k loc f o wc r hth hin hp hsh hi hsel hf ho hr => exact ⟨m, th, h.same rfl rfl rfl⟩
  | copyFail k loc f o wc e hth hin hp hsh hi hsel hf ho hr =>
    exact ⟨m, th, h.set hth rfl rfl rfl (fun ts _ => Rel.failed _ _ ts)⟩
  | repointRoll k nl hth hp hw => exact ⟨m, th, h.same rfl rfl rfl⟩
  | repoint k nl hth hp hw => exact ⟨m, th, h.same rfl rfl rfl⟩
  | leave hth hin hp hc => exact ⟨m, th, h.same rfl rfl rfl⟩
  | unlink f rest hth hin hsh htd => exact ⟨m, th, h.same rfl rfl rfl⟩
  | newActive hth hin hsh htd => exact ⟨m, th, h.set hth rfl rfl rfl (Rel.keep rfl rfl rfl (by simp))⟩

/-- invariants plus the simulation -/
structure InvL (c : Cfg) (s : Sys) : Prop where
  inv : Inv c s
  lin : ∃ m th, LinInv s m th

theorem InvL.reachable {n : Nat} (h : Reachable c n s) : InvL c s := by
  obtain ⟨es, hr⟩ := h
  refine run_induct (P := InvL c) ?_ es _ s ⟨Inv.init c n, _, _, LinInv.init _ _⟩ hr
  intro s t s' hi hs
  obtain ⟨m, th, hl⟩ := hi.lin
  exact ⟨hi.inv.step hs, hl.step hi.inv.safe hs⟩

/-- **the ghost history of every reachable state is linearizable w.r.t. the map** -/
theorem hist_linearizable {n : Nat} (h : Reachable c n s) :
    Lin.TraceLinearizable mapSpec s.hist := by
  obtain ⟨m, th, hl⟩ := (InvL.reachable h).lin
  exact hl.scan.linearizable

/-- when every thread is idle, every operation of the ghost history has responded -/
theorem hist_quiescent {n : Nat} (h : Reachable c n s)
    (hidle : ∀ (t : Nat) (st : TState), s.threads[t]? = some st → st = .idle) :
    Lin.Quiescent s.hist := by
  obtain ⟨m, th, hl⟩ := (InvL.reachable h).lin
  apply hl.scan.quiescent
  intro t
  cases hx : s.threads[t]? with
  | none => exact hl.out t hx
  | some st =>
    have := hl.rel t st hx
    rw [hidle t st hx] at this
    exact Rel.of_idle this

end CStore
