/-
  C16 — graceful shutdown (`src/net/server.rs` `Server::run` / `Handler::run`, `src/shutdown.rs`).

  A handler loops: `while !shutdown.is_shutdown() { select!{ read_frame, shutdown.recv() => return };
  parse the command; run it on the blocking pool; write the reply }`. The shutdown branch exists
  only at the `select!`, i.e. between replies; the store call and `write_frame` are not
  interruptible. `Server::run` returns when every handler has dropped its completion sender.
  Labelled transition system for one handler; core Lean only.
-/

namespace Shutdown

inductive Phase where
  | top                    -- evaluating `while !shutdown.is_shutdown()`
  | selecting              -- in `select!` (possibly with part of a frame buffered)
  | executing              -- store operation running on a blocking thread
  | writing (rem : Nat)    -- `write_frame`: `rem` bytes of the reply still to send
  | done                   -- handler returned (its completion sender is dropped)
deriving DecidableEq, Repr

structure St where
  signalled : Bool := false     -- the server dropped the broadcast sender
  seen : Bool := false          -- this handler's `Shutdown::shutdown` flag
  phase : Phase := .top
  /-- complete request frames still available to this handler (buffered or deliverable) -/
  frames : Nat := 0
  applied : Nat := 0            -- store operations that have returned
  replied : Nat := 0            -- replies completely sent
  partialSent : Nat := 0        -- bytes sent of the reply in progress
deriving DecidableEq, Repr

/-- the handler's own possible next states; `len` = length of the reply about to be written,
    `chunk` = size of the next successful socket write -/
def own (s : St) (len chunk : Nat) : List St :=
  match s.phase with
  | .top => if s.seen then [{ s with phase := .done }] else [{ s with phase := .selecting }]
  | .selecting =>
    (if s.frames > 0 then [{ s with phase := .executing, frames := s.frames - 1 }] else []) ++
    (if s.signalled then [{ s with phase := .done, seen := true }] else [])
  | .executing => [{ s with phase := .writing (len + 1), applied := s.applied + 1 }]
  | .writing rem =>
    let c := min (chunk + 1) rem
    if rem - c = 0 then [{ s with phase := .top, replied := s.replied + 1, partialSent := 0 }]
    else [{ s with phase := .writing (rem - c), partialSent := s.partialSent + c }]
  | .done => []

/-- safety invariant: bytes of an unfinished reply are on the wire only while that reply is
    being written; every reply sent belongs to an operation that has returned -/
def Inv (s : St) : Prop :=
  match s.phase with
  | .writing _ => s.replied + 1 ≤ s.applied
  | _ => s.partialSent = 0 ∧ s.replied ≤ s.applied

theorem own_inv {s s' : St} {len chunk : Nat} (hi : Inv s) (h : s' ∈ own s len chunk) : Inv s' := by
  unfold own at h
  unfold Inv at hi ⊢
  cases hp : s.phase with
  | top =>
    simp only [hp] at h hi
    split at h <;> (simp only [List.mem_singleton] at h; subst h; simpa using hi)
  | selecting =>
    simp only [hp, List.mem_append] at h hi
    rcases h with h | h
    · split at h
      · simp only [List.mem_singleton] at h; subst h; simpa using hi
      · simp at h
    · split at h
      · simp only [List.mem_singleton] at h; subst h; simpa using hi
      · simp at h
  | executing =>
    simp only [hp, List.mem_singleton] at h hi; subst h
    simp only; omega
  | writing rem =>
    simp only [hp] at h hi
    split at h
    · simp only [List.mem_singleton] at h; subst h
      exact ⟨rfl, by simp only; omega⟩
    · simp only [List.mem_singleton] at h; subst h
      simpa using hi
  | done => simp [hp] at h

/-- distance to `done` after the signal, in own steps, when replies are at most `maxReply` long -/
def dist (maxReply : Nat) (s : St) : Nat :=
  s.frames * (maxReply + 7) +
  (match s.phase with
   | .done => 0
   | .selecting => 1
   | .top => if s.seen then 1 else 2
   | .writing rem => rem + 3
   | .executing => maxReply + 5)

theorem own_dist {s s' : St} {len chunk maxReply : Nat} (hsig : s.signalled = true) (hlen : len ≤ maxReply)
    (hw : ∀ r, s.phase = .writing r → r ≤ maxReply + 1)
    (h : s' ∈ own s len chunk) : s'.signalled = true ∧ dist maxReply s' < dist maxReply s := by
  unfold own at h
  cases hp : s.phase with
  | top =>
    simp only [hp] at h
    split at h <;> (simp only [List.mem_singleton] at h; subst h; simp [dist, hsig, *])
  | selecting =>
    simp only [hp, List.mem_append] at h
    rcases h with h | h
    · split at h
      · rename_i hf
        simp only [List.mem_singleton] at h; subst h
        refine ⟨hsig, ?_⟩
        simp only [dist, hp]
        have : s.frames = (s.frames - 1) + 1 := by omega
        rw [this, Nat.add_mul]
        simp only [Nat.add_sub_cancel]
        omega
      · simp at h
    · simp only [hsig, ↓reduceIte, List.mem_singleton] at h; subst h
      simp [dist, hp, hsig]
  | executing =>
    simp only [hp, List.mem_singleton] at h; subst h
    refine ⟨hsig, ?_⟩
    simp only [dist, hp]; omega
  | writing rem =>
    simp only [hp] at h
    have hr := hw rem hp
    split at h
    · simp only [List.mem_singleton] at h; subst h
      refine ⟨hsig, ?_⟩
      simp only [dist, hp]; split <;> omega
    · rename_i hne
      simp only [List.mem_singleton] at h; subst h
      refine ⟨hsig, ?_⟩
      simp only [dist, hp]
      have : min (chunk + 1) rem ≥ 1 := by
        have : rem ≥ 1 := by
          cases rem with
          | zero => simp at hne
          | succ r => omega
        omega
      omega
  | done => simp [hp] at h

theorem own_progress (s : St) (len chunk : Nat) (hsig : s.signalled = true) (hne : s.phase ≠ .done) :
    own s len chunk ≠ [] := by
  unfold own
  cases hp : s.phase with
  | top => simp only; split <;> simp
  | selecting => simp [hsig]
  | executing => simp
  | writing rem => simp only; split <;> simp
  | done => exact absurd hp hne

end Shutdown
