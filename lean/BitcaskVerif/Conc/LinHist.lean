/-
  The history of a trace is unique up to order; linearizability does not depend on the order in
  which a history lists its operations.
-/
import BitcaskVerif.Conc.LinScan

namespace Lin

variable {σ Op Res : Type}

theorem IsOp.eq_of_resp {h : List (Ev Op Res)} {o o' : OpRec Op Res} (h1 : IsOp h o)
    (h2 : IsOp h o') (e : o.resp = o'.resp) : o = o' := by
  obtain ⟨a1, b1, c1, d1⟩ := h1
  obtain ⟨a2, b2, c2, d2⟩ := h2
  rw [e] at b1
  have hr := b1.functional b2
  have htid : o.tid = o'.tid := by injection hr
  have hres : o.res = o'.res := by injection hr
  have hinv : o.inv = o'.inv := by
    rcases Nat.lt_trichotomy o.inv o'.inv with hlt | heq | hgt
    · exact absurd htid.symm (d1 o'.inv _ hlt (by omega) a2 rfl)
    · exact heq
    · exact absurd htid (d2 o.inv _ hgt (by omega) a1 rfl)
  rw [hinv] at a1
  have hi := a1.functional a2
  have hop : o.op = o'.op := by injection hi
  cases o; cases o'; simp_all

theorem HistoryOf.nodup {h : List (Ev Op Res)} {ops : List (OpRec Op Res)} (ho : HistoryOf h ops) :
    ops.Nodup := by
  unfold List.Nodup
  refine ho.2.2.imp ?_
  intro a b hab e
  exact hab (by rw [e])

theorem HistoryOf.perm {h : List (Ev Op Res)} {ops ops' : List (OpRec Op Res)}
    (h1 : HistoryOf h ops) (h2 : HistoryOf h ops') : ops.Perm ops' := by
  rw [List.perm_ext_iff_of_nodup h1.nodup h2.nodup]
  intro o
  constructor
  · intro ho
    have hop := h1.1 o ho
    obtain ⟨o', ho', e⟩ := h2.2.1 _ _ _ hop.2.1
    rw [hop.eq_of_resp (h2.1 o' ho') e.symm]; exact ho'
  · intro ho
    have hop := h2.1 o ho
    obtain ⟨o', ho', e⟩ := h1.2.1 _ _ _ hop.2.1
    rw [hop.eq_of_resp (h1.1 o' ho') e.symm]; exact ho'

theorem Linearizable.perm {sp : Spec σ Op Res} {h h' : List (OpRec Op Res)}
    (hl : Linearizable sp h) (hp : h.Perm h') : Linearizable sp h' := by
  obtain ⟨l, a, b, c⟩ := hl
  exact ⟨l, a.trans hp, b, c⟩

/-- for a trace without pending operations: any listing of its history is linearizable -/
theorem TraceLinearizable.history {sp : Spec σ Op Res} {h : List (Ev Op Res)}
    {ops : List (OpRec Op Res)} (hl : TraceLinearizable sp h) (hq : Quiescent h)
    (ho : HistoryOf h ops) : Linearizable sp ops := by
  obtain ⟨ops', ho', hl'⟩ := hl.complete hq
  exact hl'.perm (ho'.perm ho)

end Lin
