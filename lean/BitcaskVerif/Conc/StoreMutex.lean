/-
  C04 — mutual exclusion: the writer mutex is held exactly by the thread that is inside
  `put` / `delete` / `merge`, and the merge locals are in use only while such a thread is merging.
-/
import BitcaskVerif.Conc.StoreBasics

namespace CStore

structure MutexInv (s : Sys) : Prop where
  crit : ∀ (t : Tid) (st : TState), s.threads[t]? = some st → st.inCrit = true → s.mutex = some t
  holder : ∀ t, s.mutex = some t →
    ∃ st, s.threads[t]? = some st ∧ (st.inCrit = true ∨ st.isFailed = true)
  mergeOn : s.mg.on = true →
    ∃ t st, s.mutex = some t ∧ s.threads[t]? = some st ∧ (st = .merging ∨ st.isFailed = true)
  mergeOff : ∀ (t : Tid), s.threads[t]? = some .merging → s.mg.on = true

theorem MutexInv.unique {s : Sys} (h : MutexInv s) {t t' : Tid} {st st' : TState}
    (h1 : s.threads[t]? = some st) (h2 : s.threads[t']? = some st')
    (c1 : st.inCrit = true) (c2 : st'.inCrit = true) : t = t' := by
  have a := h.crit t st h1 c1
  have b := h.crit t' st' h2 c2
  rw [a] at b; cases b; rfl

/-- while a `put` / `delete` is inside the mutex no merge is running -/
theorem MutexInv.no_merge {s : Sys} (h : MutexInv s) {t : Tid} {st : TState}
    (h1 : s.threads[t]? = some st) (c1 : st.inCrit = true) (hm : st ≠ .merging) :
    s.mg.on = false := by
  cases hon : s.mg.on with
  | false => rfl
  | true =>
    obtain ⟨t', st', hmu, hth, hst⟩ := h.mergeOn hon
    have a := h.crit t st h1 c1
    rw [a] at hmu; cases hmu
    rw [h1] at hth; cases hth
    rcases hst with hst | hst
    · exact absurd hst hm
    · cases st <;> simp [TState.inCrit, TState.isFailed] at c1 hst

theorem Local.crit {c : Cfg} {s : Sys} {st st' : TState} (hl : Local c s st st') :
    (st'.inCrit = st.inCrit ∨ st'.isFailed = true) ∧ (st' = .merging → st = .merging) ∧
    (st = .merging → st'.isFailed = true) ∧ st.isFailed = false := by
  cases hl <;> simp [TState.inCrit, TState.isFailed]

/-- a step that changes only thread `t`'s state, keeping it inside / outside the mutex -/
theorem MutexInv.set {s s' : Sys} (h : MutexInv s) {t : Tid} {st st' : TState}
    (hth : s.threads[t]? = some st) (hthreads : s'.threads = s.threads.set t st')
    (hm : s'.mutex = s.mutex) (hon : s'.mg.on = s.mg.on) (hnf : st.isFailed = false)
    (hc : st'.inCrit = st.inCrit ∨ st'.isFailed = true)
    (hmg : st' = .merging → st = .merging)
    (hmg2 : st = .merging → st' = .merging ∨ st'.isFailed = true) : MutexInv s' := by
  have hfc : st'.isFailed = true → st'.inCrit = false := by
    cases st' <;> simp [TState.inCrit, TState.isFailed]
  constructor
  · intro t' x hx hcx
    rw [hthreads] at hx; rw [hm]
    rcases get_set_thread hx with ⟨rfl, rfl⟩ | ⟨_, hx'⟩
    · rcases hc with hc | hc
      · exact h.crit _ _ hth (hc ▸ hcx)
      · rw [hfc hc] at hcx; cases hcx
    · exact h.crit _ _ hx' hcx
  · intro t' hmu
    rw [hm] at hmu
    obtain ⟨x, hx, hxc⟩ := h.holder t' hmu
    rw [hthreads]
    by_cases htt : t' = t
    · subst htt
      rw [hth] at hx; cases hx
      refine ⟨st', get_set_self hth, ?_⟩
      rcases hc with hc | hc
      · rcases hxc with hxc | hxc
        · exact .inl (hc ▸ hxc)
        · rw [hnf] at hxc; cases hxc
      · exact .inr hc
    · exact ⟨x, by rw [get_set_ne _ htt]; exact hx, hxc⟩
  · intro hon'
    rw [hon] at hon'
    obtain ⟨t', x, hmu, hx, hxm⟩ := h.mergeOn hon'
    rw [hthreads, hm]
    by_cases htt : t' = t
    · subst htt
      rw [hth] at hx; cases hx
      refine ⟨t', st', hmu, get_set_self hth, ?_⟩
      rcases hxm with hxm | hxm
      · exact hmg2 hxm
      · rw [hnf] at hxm; cases hxm
    · exact ⟨t', x, hmu, by rw [get_set_ne _ htt]; exact hx, hxm⟩
  · intro t' hx
    rw [hthreads] at hx; rw [hon]
    rcases get_set_thread hx with ⟨rfl, hst⟩ | ⟨_, hx'⟩
    · exact h.mergeOff _ (hmg hst.symm ▸ hth)
    · exact h.mergeOff _ hx'

theorem MutexInv.init (cap n : Nat) : MutexInv (init cap n) := by
  have hidle : ∀ (t : Nat) (st : TState), (CStore.init cap n).threads[t]? = some st → st = .idle := by
    intro t st h
    simp only [CStore.init] at h
    exact (List.eq_of_mem_replicate (List.mem_of_getElem? h))
  constructor
  · intro t st h hc; rw [hidle t st h] at hc; cases hc
  · intro t h; cases h
  · intro h; cases h
  · intro t h; cases hidle t _ h

theorem MutexInv.step {c : Cfg} {s s' : Sys} {t : Tid} (h : MutexInv s) (hs : Step c s t s') :
    MutexInv s' := by
  cases hs with
  | thr st st' hh hth hl =>
    exact h.set hth rfl rfl rfl hl.crit.2.2.2 hl.crit.1 hl.crit.2.1 (fun e => .inr (hl.crit.2.2.1 e))
  | spin => exact h
  | lock r hth hm =>
    constructor
    · intro t' x hx hcx
      rcases get_set_thread hx with ⟨rfl, _⟩ | ⟨_, hx'⟩
      · rfl
      · have := h.crit _ _ hx' hcx; rw [hm] at this; cases this
    · intro t' hmu
      cases hmu
      exact ⟨_, get_set_self hth, .inl rfl⟩
    · intro hon
      obtain ⟨t', _, hmu, _⟩ := h.mergeOn hon
      rw [hm] at hmu; cases hmu
    · intro t' hx
      rcases get_set_thread hx with ⟨_, hst⟩ | ⟨_, hx'⟩
      · cases hst
      · exact h.mergeOff _ hx'
  | mergeLock sel sel' hth hm hsel =>
    constructor
    · intro t' x hx hcx
      rcases get_set_thread hx with ⟨rfl, _⟩ | ⟨_, hx'⟩
      · rfl
      · have := h.crit _ _ hx' hcx; rw [hm] at this; cases this
    · intro t' hmu
      cases hmu
      exact ⟨_, get_set_self hth, .inl rfl⟩
    · intro _
      exact ⟨t, _, rfl, get_set_self hth, .inl rfl⟩
    · intro _ _; rfl
  | chunkDone r n f hth hf hn hd => exact h.set hth rfl rfl rfl rfl (.inl rfl) (by simp) (by simp)
  | chunkPart r n f hth hf hn hd => exact ⟨h.1, h.2, h.3, h.4⟩
  | accountRoll r loc hth hw => exact h.set hth rfl rfl rfl rfl (.inl rfl) (by simp) (by simp)
  | accountStay r loc hth hw => exact h.set hth rfl rfl rfl rfl (.inl rfl) (by simp) (by simp)
  | publishPut r loc v hth hg hv => exact h.set hth rfl rfl rfl rfl (.inl rfl) (by simp) (by simp)
  | publishDel r loc hth hg hv => exact h.set hth rfl rfl rfl rfl (.inl rfl) (by simp) (by simp)
  | unlock st res hth hst =>
    have hc : st.inCrit = true := by rcases hst with rfl | ⟨rfl, _⟩ <;> rfl
    have hnm : st ≠ .merging := by rcases hst with rfl | ⟨rfl, _⟩ <;> simp
    have hnf : st.isFailed = false := by rcases hst with rfl | ⟨rfl, _⟩ <;> rfl
    have hmu := h.crit _ _ hth hc
    constructor
    · intro t' x hx hcx
      rcases get_set_thread hx with ⟨_, rfl⟩ | ⟨hne, hx'⟩
      · cases hcx
      · exact absurd (h.unique hx' hth hcx hc) hne
    · intro t' hmu'; cases hmu'
    · intro hon
      have : s.mg.on = false := h.no_merge hth hc hnm
      rw [this] at hon; cases hon
    · intro t' hx
      rcases get_set_thread hx with ⟨_, hst'⟩ | ⟨hne, hx'⟩
      · cases hst'
      · exact absurd (h.unique hx' hth rfl hc) hne
  | checkout k rd rest hth hp => exact h.set hth rfl rfl rfl rfl (.inl rfl) (by simp) (by simp)
  | checkin rd v hth => exact h.set hth rfl rfl rfl rfl (.inl rfl) (by simp) (by simp)
  | enter hth hin hsh hg => exact ⟨h.1, h.2, h.3, h.4⟩
  | copyOk k loc f o wc r hth hin hp hsh hi hsel hf ho hr => exact ⟨h.1, h.2, h.3, h.4⟩
  | copyFail k loc f o wc e hth hin hp hsh hi hsel hf ho hr =>
    exact h.set hth rfl rfl rfl rfl (.inr rfl) (by simp) (fun _ => .inr rfl)
  | repointRoll k nl hth hp hw => exact ⟨h.1, h.2, h.3, h.4⟩
  | repoint k nl hth hp hw => exact ⟨h.1, h.2, h.3, h.4⟩
  | leave hth hin hp hc => exact ⟨h.1, h.2, h.3, h.4⟩
  | unlink f rest hth hin hsh htd => exact ⟨h.1, h.2, h.3, h.4⟩
  | newActive hth hin hsh htd =>
    have hmu := h.crit _ _ hth rfl
    constructor
    · intro t' x hx hcx
      rcases get_set_thread hx with ⟨rfl, _⟩ | ⟨_, hx'⟩
      · exact hmu
      · exact h.crit _ _ hx' hcx
    · intro t' hmu'
      have : t' = t := by
        have h1 : s.mutex = some t' := hmu'
        rw [hmu] at h1; cases h1; rfl
      subst this
      exact ⟨_, get_set_self hth, .inl rfl⟩
    · intro hon; cases hon
    · intro t' hx
      rcases get_set_thread hx with ⟨_, hst'⟩ | ⟨hne, hx'⟩
      · cases hst'
      · exact absurd (h.unique hx' hth rfl rfl) hne

end CStore
