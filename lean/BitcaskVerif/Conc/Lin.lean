/-
  Linearizability, kept as simple as possible (core Lean only).

  A (complete) history is a list of operation records: who, which operation, which result, the
  time of the invocation and the time of the response. It is linearizable w.r.t. a sequential
  specification if the operations can be put into one order that (a) is a legal sequential run of
  the specification producing exactly the recorded results and (b) respects real time: an
  operation that responded before another one was invoked comes first.

  Meta-theorems:
  * `of_linearization_points` — if every operation can be given a point in time between its
    invocation and its response such that the operations, taken in the order of these points,
    form a legal sequential run, the history is linearizable;
  * `widen` — making every operation's interval larger (request sent … reply received instead of
    store call … store return) preserves linearizability, and
  * `widen_po` — if moreover the operations of each client are sequential in the widened history,
    the linearization respects each client's own order as well.
-/

namespace Lin

/-- a sequential specification: initial state and a total step function -/
structure Spec (σ Op Res : Type) where
  init : σ
  apply : σ → Op → σ × Res

structure OpRec (Op Res : Type) where
  tid : Nat
  op : Op
  res : Res
  /-- time of the invocation -/
  inv : Nat
  /-- time of the response -/
  resp : Nat

variable {σ Op Res : Type}

/-- `l`, run sequentially from state `s`, produces exactly the recorded results and ends in `s'` -/
def LegalFrom (sp : Spec σ Op Res) : σ → List (OpRec Op Res) → σ → Prop
  | s, [], s' => s = s'
  | s, o :: l, s' => (sp.apply s o.op).2 = o.res ∧ LegalFrom sp (sp.apply s o.op).1 l s'

def Legal (sp : Spec σ Op Res) (l : List (OpRec Op Res)) : Prop := ∃ s', LegalFrom sp sp.init l s'

/-- real-time order: nobody is placed before an operation that had already responded when he was
    invoked -/
def Respects (l : List (OpRec Op Res)) : Prop := l.Pairwise fun a b => ¬ b.resp < a.inv

/-- each client's own order: of two operations of the same client the one placed first is the
    one that was over before the other began -/
def ProgramOrder (l : List (OpRec Op Res)) : Prop :=
  l.Pairwise fun a b => a.tid = b.tid → a.resp < b.inv

def Linearizable (sp : Spec σ Op Res) (h : List (OpRec Op Res)) : Prop :=
  ∃ l, l.Perm h ∧ Legal sp l ∧ Respects l

/-- linearizable by an order that also respects every client's own order -/
def LinearizablePO (sp : Spec σ Op Res) (h : List (OpRec Op Res)) : Prop :=
  ∃ l, l.Perm h ∧ Legal sp l ∧ Respects l ∧ ProgramOrder l

theorem legalFrom_append {sp : Spec σ Op Res} {s s' : σ} {l : List (OpRec Op Res)}
    {o : OpRec Op Res} (h : LegalFrom sp s l s') (ho : (sp.apply s' o.op).2 = o.res) :
    LegalFrom sp s (l ++ [o]) (sp.apply s' o.op).1 := by
  induction l generalizing s with
  | nil => cases h; exact ⟨ho, rfl⟩
  | cons x xs ih => exact ⟨h.1, ih h.2⟩

/-- **Linearization points.** `lp` assigns to every operation a time between its invocation and
    its response; `l` lists the operations in the order of these times and is a legal sequential
    run. Then the history is linearizable (and `l` is the witness). -/
theorem of_linearization_points {sp : Spec σ Op Res} {h l : List (OpRec Op Res)}
    (lp : OpRec Op Res → Nat) (hperm : l.Perm h)
    (hbetween : ∀ o ∈ h, o.inv ≤ lp o ∧ lp o ≤ o.resp)
    (hsorted : l.Pairwise fun a b => lp a ≤ lp b) (hlegal : Legal sp l) :
    Linearizable sp h := by
  refine ⟨l, hperm, hlegal, ?_⟩
  unfold Respects
  refine List.Pairwise.imp_of_mem ?_ hsorted
  intro a b ha hb hab hlt
  have h1 := hbetween a (hperm.subset ha)
  have h2 := hbetween b (hperm.subset hb)
  omega

/-! ### widening -/

/-- `n` is `s` seen from further away: same client, operation and result, a larger interval -/
def Wider (n s : OpRec Op Res) : Prop :=
  n.tid = s.tid ∧ n.op = s.op ∧ n.res = s.res ∧ n.inv ≤ s.inv ∧ s.resp ≤ n.resp

theorem perm_map_inv {α β : Type} (f : α → β) {l m : List β} (h : l.Perm m) :
    ∀ xs : List α, m = xs.map f → ∃ ys : List α, ys.Perm xs ∧ ys.map f = l := by
  induction h with
  | nil => intro xs hx; exact ⟨[], by cases xs <;> simp_all, rfl⟩
  | cons a _ ih =>
    intro xs hx
    cases xs with
    | nil => cases hx
    | cons x xs' =>
      simp only [List.map_cons, List.cons.injEq] at hx
      obtain ⟨ys, hp, hm⟩ := ih xs' hx.2
      exact ⟨x :: ys, hp.cons x, by simp [hm, hx.1]⟩
  | swap a b l =>
    intro xs hx
    cases xs with
    | nil => cases hx
    | cons x xs' =>
      cases xs' with
      | nil => simp at hx
      | cons y xs'' =>
        simp only [List.map_cons, List.cons.injEq] at hx
        exact ⟨y :: x :: xs'', List.Perm.swap x y xs'', by simp [hx.1, hx.2.1, hx.2.2]⟩
  | trans _ _ ih1 ih2 =>
    intro xs hx
    obtain ⟨ys2, hp2, hm2⟩ := ih2 xs hx
    obtain ⟨ys1, hp1, hm1⟩ := ih1 ys2 hm2.symm
    exact ⟨ys1, hp1.trans hp2, hm1⟩

theorem legalFrom_wider {sp : Spec σ Op Res} {s s' : σ} {ps : List (OpRec Op Res × OpRec Op Res)}
    (hw : ∀ p ∈ ps, Wider p.1 p.2) (h : LegalFrom sp s (ps.map Prod.snd) s') :
    LegalFrom sp s (ps.map Prod.fst) s' := by
  induction ps generalizing s with
  | nil => exact h
  | cons p ps ih =>
    obtain ⟨_, hop, hres, _, _⟩ := hw p List.mem_cons_self
    simp only [List.map_cons, LegalFrom] at h ⊢
    rw [hop, hres]
    exact ⟨h.1, ih (fun q hq => hw q (List.mem_cons_of_mem _ hq)) h.2⟩

/-- **Widening.** `ps` pairs every network-level operation (first component: request sent …
    reply received) with the store operation it contains (second component). If the store
    history is linearizable, so is the network history. -/
theorem widen {sp : Spec σ Op Res} (ps : List (OpRec Op Res × OpRec Op Res))
    (hw : ∀ p ∈ ps, Wider p.1 p.2) (h : Linearizable sp (ps.map Prod.snd)) :
    Linearizable sp (ps.map Prod.fst) := by
  obtain ⟨l, hperm, ⟨s', hlegal⟩, hresp⟩ := h
  obtain ⟨qs, hq, hm⟩ := perm_map_inv Prod.snd hperm ps rfl
  have hwq : ∀ p ∈ qs, Wider p.1 p.2 := fun p hp => hw p (hq.subset hp)
  refine ⟨qs.map Prod.fst, hq.map _, ⟨s', legalFrom_wider hwq (hm ▸ hlegal)⟩, ?_⟩
  unfold Respects at *
  rw [← hm] at hresp
  rw [List.pairwise_map] at hresp ⊢
  refine List.Pairwise.imp_of_mem ?_ hresp
  intro a b ha hb hab hlt
  obtain ⟨_, _, _, a1, a2⟩ := hwq a ha
  obtain ⟨_, _, _, b1, b2⟩ := hwq b hb
  omega

/-- the operations of each client do not overlap -/
def SeqPerClient (h : List (OpRec Op Res)) : Prop :=
  h.Pairwise fun a b => a.tid = b.tid → a.resp < b.inv ∨ b.resp < a.inv

/-- a real-time respecting order of a history whose clients are sequential respects every
    client's own order -/
theorem programOrder_of_respects {h l : List (OpRec Op Res)} (hperm : l.Perm h)
    (hseq : SeqPerClient h) (hresp : Respects l) : ProgramOrder l := by
  have hseq' : SeqPerClient l := by
    unfold SeqPerClient at *
    refine (hperm.pairwise_iff ?_).mpr hseq
    intro a b hab e
    rcases hab e.symm with x | x
    · exact .inr x
    · exact .inl x
  unfold ProgramOrder Respects SeqPerClient at *
  refine (hresp.and hseq').imp ?_
  intro a b ⟨h1, h2⟩ e
  rcases h2 e with x | x
  · exact x
  · exact absurd x h1

/-- **Widening with per-connection order.** -/
theorem widen_po {sp : Spec σ Op Res} (ps : List (OpRec Op Res × OpRec Op Res))
    (hw : ∀ p ∈ ps, Wider p.1 p.2) (hseq : SeqPerClient (ps.map Prod.fst))
    (h : Linearizable sp (ps.map Prod.snd)) : LinearizablePO sp (ps.map Prod.fst) := by
  obtain ⟨l, hperm, hlegal, hresp⟩ := widen ps hw h
  exact ⟨l, hperm, hlegal, hresp, programOrder_of_respects hperm hseq hresp⟩

end Lin
