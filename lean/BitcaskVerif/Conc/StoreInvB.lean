/-
  C04 — preservation of the safety invariant by the steps of `put` / `delete`
  (lock, chunk, account / roll-over, publish, unlock) and by the pool steps.
-/
import BitcaskVerif.Conc.StoreInvA

namespace CStore

variable {c : Cfg} {s s' : Sys} {t : Tid}

/-- a step that touches only the acting thread's state (and components the invariant does not
    mention), the new state being neither a reading `get`, nor a failure -/
theorem SafeInv.setSimple {st st' : TState} (h : SafeInv c s) (hth : s.threads[t]? = some st)
    (hthreads : s'.threads = s.threads.set t st') (hfiles : s'.files = s.files)
    (hindex : s'.index = s.index) (hamap : s'.amap = s.amap) (hmg : s'.mg = s.mg)
    (hactive : s'.active = s.active)
    (hw : ∀ r loc, (st' = .wAppended r loc ∨ st' = .wAccounted r loc) →
      (st = .wAppended r loc ∨ st = .wAccounted r loc))
    (hg : ∀ pc k rd loc gv, st' ≠ .gRead pc k rd loc gv)
    (hguard : st'.guard c = none) (hnf : c.fixed = true → st'.isFailed = false) : SafeInv c s' := by
  have hfile : ∀ fid, s'.file fid = s.file fid := by intro fid; unfold Sys.file; rw [hfiles]
  have hrec : ∀ loc r, RecordAt s loc r → RecordAt s' loc r := by
    intro loc r ⟨f, a, b⟩; exact ⟨f, by rw [hfile]; exact a, b⟩
  have hpts : ∀ k loc, Points s k loc → Points s' k loc := by
    intro k loc ⟨r, v, a, b, d, e⟩; exact ⟨r, v, hrec _ _ a, b, d, by rw [hamap]; exact e⟩
  have htop : top s' = top s := by unfold top; rw [hmg, hactive]
  constructor
  · intro f hf; rw [hfile]; rw [htop] at hf; exact h.fresh f hf
  · intro hon; rw [hmg] at hon; rw [hfile, hactive]; exact h.activeOk hon
  · intro k loc hi; rw [hindex] at hi; exact hpts _ _ (h.index k loc hi)
  · intro k hi; rw [hindex] at hi; rw [hamap]; exact h.amapDom k hi
  · refine h.writer.set hthreads hrec ?_
    intro r loc hx
    exact hrec _ _ (h.writer t r loc (by rcases hw r loc hx with e | e <;> rw [e] at hth <;> simp [hth]))
  · refine h.guard.set hthreads (fun _ _ _ _ _ _ _ _ => by rw [hindex, hamap]; exact ⟨rfl, rfl⟩) ?_
    intro pc k rd loc gv e; exact absurd e (hg _ _ _ _ _)
  · intro hon; rw [hmg] at hon ⊢; rw [hactive]; exact h.mgSel hon
  · intro hon; rw [hmg] at hon ⊢; rw [hfile]; exact h.mgOut hon
  · intro hon k nl hp; rw [hmg] at hon hp ⊢
    obtain ⟨a, b, d, e⟩ := h.mgPending hon k nl hp
    exact ⟨a, b, d, hpts _ _ e⟩
  · intro hon k loc hi hsel; rw [hmg] at hon hsel ⊢; rw [hindex] at hi
    exact h.visited hon k loc hi hsel
  · intro hon hin; rw [hmg] at hon hin ⊢
    exact guardFree_set (h.wlock hon hin) hthreads (by rw [hguard]; simp)
  · intro hfx; exact (h.noFail hfx).set hthreads (hnf hfx)

theorem SafeInv.lock {r : Rec} (h : SafeInv c s) (hth : s.threads[t]? = some (.wInv r)) :
    SafeInv c { s with mutex := some t, threads := s.threads.set t (.wWriting r) } :=
  h.setSimple hth rfl rfl rfl rfl rfl rfl (by simp) (by simp) rfl (fun _ => rfl)

theorem SafeInv.unlock {st : TState} {res : Res} (h : SafeInv c s) (hth : s.threads[t]? = some st) :
    SafeInv c { s with mutex := none, threads := s.threads.set t (.respond res) } :=
  h.setSimple hth rfl rfl rfl rfl rfl rfl (by simp) (by simp) rfl (fun _ => rfl)

theorem SafeInv.checkout {k : Key} {rd : Reader} {rest : List Reader} (h : SafeInv c s)
    (hth : s.threads[t]? = some (.gInv k)) :
    SafeInv c { s with pool := rest, threads := s.threads.set t (.gHave k rd) } :=
  h.setSimple hth rfl rfl rfl rfl rfl rfl (by simp) (by simp) rfl (fun _ => rfl)

theorem SafeInv.checkin {rd : Reader} {v : Option Val} (h : SafeInv c s)
    (hth : s.threads[t]? = some (.gCheckin rd v)) :
    SafeInv c { s with pool := s.pool ++ [rd], threads := s.threads.set t (.respond (.found v)) } :=
  h.setSimple hth rfl rfl rfl rfl rfl rfl (by simp) (by simp) rfl (fun _ => rfl)

theorem SafeInv.accountStay {r : Rec} {loc : Loc} (h : SafeInv c s)
    (hth : s.threads[t]? = some (.wAppended r loc)) :
    SafeInv c { s with written := s.written + loc.len, threads := s.threads.set t (.wAccounted r loc) } :=
  h.setSimple hth rfl rfl rfl rfl rfl rfl
    (by intro r' loc' hx; rcases hx with hx | hx <;> cases hx; exact .inl rfl) (by simp) rfl (fun _ => rfl)

theorem off_on {a : Bool} {P : Prop} (hoff : a = false) (hon : a = true) : P :=
  Bool.noConfusion (hoff.symm.trans hon)

theorem top_off (hoff : s.mg.on = false) : top s = s.active := by unfold top; simp [hoff]

theorem SafeInv.chunkDone {r : Rec} {f : File} (hm : MutexInv s) (h : SafeInv c s)
    (hth : s.threads[t]? = some (.wWriting r)) (hf : s.file s.active = some f) :
    SafeInv c { s with
      files := AL.set s.active { f with recs := f.recs ++ [r], part := 0 } s.files
      threads := s.threads.set t (.wAppended r ⟨s.active, csize f.recs, r.size⟩) } := by
  have hoff := hm.no_merge hth rfl (by simp)
  have hlinked : f.linked = true := by
    obtain ⟨f', hf', hl⟩ := h.activeOk hoff
    rw [hf] at hf'; cases hf'; exact hl
  have hgrow : FilesGrow s { s with
      files := AL.set s.active { f with recs := f.recs ++ [r], part := 0 } s.files
      threads := s.threads.set t (.wAppended r ⟨s.active, csize f.recs, r.size⟩) } :=
    FilesGrow.append (x := { f with recs := f.recs ++ [r], part := 0 }) (ys := [r]) hf rfl rfl rfl
  constructor
  · intro fid hfid
    have ht : top s < fid := hfid
    rw [top_off hoff] at ht
    show AL.get fid (AL.set s.active _ s.files) = none
    rw [AL.get_set]
    have : fid ≠ s.active := by omega
    simp only [this, ↓reduceIte]
    exact h.fresh fid (by rw [top_off hoff]; exact ht)
  · intro _
    exact ⟨_, AL.get_set_same _ _ _, hlinked⟩
  · intro k loc hi; exact (h.index k loc hi).grow hgrow rfl
  · exact h.amapDom
  · refine h.writer.set rfl (fun _ _ x => x.grow hgrow) ?_
    intro r' loc' hx
    rcases hx with hx | hx <;> cases hx
    exact ⟨_, AL.get_set_same _ _ _, hlinked, recAt_end _ _, rfl⟩
  · exact h.guard.set rfl (fun _ _ _ _ _ _ _ _ => ⟨rfl, rfl⟩) (by intro _ _ _ _ _ e; cases e)
  · intro hon; exact off_on hoff hon
  · intro hon; exact off_on hoff hon
  · intro hon; exact off_on hoff hon
  · intro hon; exact off_on hoff hon
  · intro hon; exact off_on hoff hon
  · intro hfx; exact (h.noFail hfx).set rfl rfl

theorem SafeInv.chunkPart {r : Rec} {f : File} {n : Nat} (hm : MutexInv s) (h : SafeInv c s)
    (hth : s.threads[t]? = some (.wWriting r)) (hf : s.file s.active = some f) :
    SafeInv c { s with files := AL.set s.active { f with part := f.part + n } s.files } := by
  have hoff := hm.no_merge hth rfl (by simp)
  have hlinked : f.linked = true := by
    obtain ⟨f', hf', hl⟩ := h.activeOk hoff
    rw [hf] at hf'; cases hf'; exact hl
  have hgrow : FilesGrow s { s with files := AL.set s.active { f with part := f.part + n } s.files } :=
    FilesGrow.append (x := { f with part := f.part + n }) (ys := []) hf (by simp) rfl rfl
  constructor
  · intro fid hfid
    have ht : top s < fid := hfid
    rw [top_off hoff] at ht
    show AL.get fid (AL.set s.active _ s.files) = none
    rw [AL.get_set]
    have : fid ≠ s.active := by omega
    simp only [this, ↓reduceIte]
    exact h.fresh fid (by rw [top_off hoff]; exact ht)
  · intro _
    exact ⟨_, AL.get_set_same _ _ _, hlinked⟩
  · intro k loc hi; exact (h.index k loc hi).grow hgrow rfl
  · exact h.amapDom
  · exact h.writer.same rfl (fun _ _ x => x.grow hgrow)
  · exact h.guard.same rfl (fun _ _ _ _ _ _ _ => ⟨rfl, rfl⟩)
  · intro hon; exact off_on hoff hon
  · intro hon; exact off_on hoff hon
  · intro hon; exact off_on hoff hon
  · intro hon; exact off_on hoff hon
  · intro hon; exact off_on hoff hon
  · exact h.noFail

theorem SafeInv.accountRoll {r : Rec} {loc : Loc} (hm : MutexInv s) (h : SafeInv c s)
    (hth : s.threads[t]? = some (.wAppended r loc)) :
    SafeInv c { s with
      files := AL.set (s.active + 1) {} s.files
      active := s.active + 1
      written := 0
      threads := s.threads.set t (.wAccounted r loc) } := by
  have hoff := hm.no_merge hth rfl (by simp)
  have hnone : s.file (s.active + 1) = none := h.fresh (s.active + 1) (by rw [top_off hoff]; omega)
  have hgrow : FilesGrow s { s with
      files := AL.set (s.active + 1) {} s.files
      active := s.active + 1
      written := 0
      threads := s.threads.set t (.wAccounted r loc) } := FilesGrow.create hnone rfl
  constructor
  · intro fid hfid
    have ht : s.active + 1 < fid := by
      have : top { s with
        files := AL.set (s.active + 1) {} s.files
        active := s.active + 1
        written := 0
        threads := s.threads.set t (.wAccounted r loc) } = s.active + 1 := top_off hoff
      rw [← this]; exact hfid
    show AL.get fid (AL.set (s.active + 1) _ s.files) = none
    rw [AL.get_set]
    have : fid ≠ s.active + 1 := by omega
    simp only [this, ↓reduceIte]
    exact h.fresh fid (by rw [top_off hoff]; omega)
  · intro _
    exact ⟨_, AL.get_set_same _ _ _, rfl⟩
  · intro k loc hi; exact (h.index k loc hi).grow hgrow rfl
  · exact h.amapDom
  · refine h.writer.set rfl (fun _ _ x => x.grow hgrow) ?_
    intro r' loc' hx
    rcases hx with hx | hx <;> cases hx
    exact (h.writer t r loc (.inl hth)).grow hgrow
  · exact h.guard.set rfl (fun _ _ _ _ _ _ _ _ => ⟨rfl, rfl⟩) (by intro _ _ _ _ _ e; cases e)
  · intro hon; exact off_on hoff hon
  · intro hon; exact off_on hoff hon
  · intro hon; exact off_on hoff hon
  · intro hon; exact off_on hoff hon
  · intro hon; exact off_on hoff hon
  · intro hfx; exact (h.noFail hfx).set rfl rfl

end CStore
