/-
  C04 — the invariants hold in every reachable state: mutual exclusion, the safety invariant,
  pool accounting; consequences: no failure state with the repaired remap test.
-/
import BitcaskVerif.Conc.StoreInvE
import BitcaskVerif.Conc.StorePool

namespace CStore

variable {c : Cfg} {s s' : Sys} {t : Tid}

theorem SafeInv.step (hm : MutexInv s) (h : SafeInv c s) (hs : Step c s t s') : SafeInv c s' := by
  cases hs with
  | thr st st' hh hth hl => exact h.thr hh hm hth hl
  | spin => exact h
  | lock r hth hmu => exact h.lock hth
  | mergeLock sel sel' hth hmu hsel => exact h.mergeLock hm hmu hsel _
  | chunkDone r n f hth hf hn hd => exact h.chunkDone hm hth hf
  | chunkPart r n f hth hf hn hd => exact h.chunkPart hm hth hf
  | accountRoll r loc hth hw => exact h.accountRoll hm hth
  | accountStay r loc hth hw => exact h.accountStay hth
  | publishPut r loc v hth hg hv => exact h.publishPut hm hth hg hv _
  | publishDel r loc hth hg hv => exact h.publishDel hm hth hg _ _
  | unlock st res hth hst => exact h.unlock hth
  | checkout k rd rest hth hp => exact h.checkout hth
  | checkin rd v hth => exact h.checkin hth
  | enter hth hin hsh hg => exact h.enter hg
  | copyOk k loc f o wc r hth hin hp hsh hi hsel hf ho hr => exact h.copyOk hm hth hin hsh hi hf ho hr
  | copyFail k loc f o wc e hth hin hp hsh hi hsel hf ho hr => exact h.copyFail hth hi hf hr
  | repointRoll k nl hth hp hw => exact h.repointRoll hm hth hp
  | repoint k nl hth hp hw => exact h.repoint hm hth hp
  | leave hth hin hp hc => exact h.leave hm hth hp hc
  | unlink f rest hth hin hsh htd => exact h.unlink hm hth hin hsh htd
  | newActive hth hin hsh htd => exact h.newActive hm hth

theorem init_idle {cap n : Nat} {t : Nat} {st : TState} (h : (init cap n).threads[t]? = some st) :
    st = .idle := by
  simp only [init] at h
  exact List.eq_of_mem_replicate (List.mem_of_getElem? h)

theorem SafeInv.init (c : Cfg) (cap n : Nat) : SafeInv c (init cap n) := by
  constructor
  · intro f hf
    have hf' : 0 < f := hf
    show AL.get f [((0 : Nat), ({} : File))] = none
    have : ¬ (0 = f) := by omega
    simp [AL.get, this]
  · intro _; exact ⟨{}, rfl, rfl⟩
  · intro k loc hi; cases hi
  · intro k _; rfl
  · intro t r loc hx
    rcases hx with hx | hx <;> cases init_idle hx
  · intro t pc k rd loc gv hx; cases init_idle hx
  · intro hon; cases hon
  · intro hon; cases hon
  · intro hon; cases hon
  · intro hon; cases hon
  · intro hon; cases hon
  · intro _ t st hx; rw [init_idle hx]; rfl

/-- everything that holds in every reachable state -/
structure Inv (c : Cfg) (s : Sys) : Prop where
  mutex : MutexInv s
  safe : SafeInv c s
  pool : PoolInv c.cap s

theorem Inv.init (c : Cfg) (n : Nat) : Inv c (init c.cap n) :=
  ⟨MutexInv.init _ _, SafeInv.init c _ _, PoolInv.init _ _⟩

theorem Inv.step (h : Inv c s) (hs : Step c s t s') : Inv c s' :=
  ⟨h.mutex.step hs, h.safe.step h.mutex hs, h.pool.step hs⟩

theorem Inv.run {es : List Event} (h : Inv c s) (hr : run c s es = some s') : Inv c s' :=
  run_induct (P := Inv c) (fun _ _ _ hi hs => hi.step hs) es s s' h hr

theorem Inv.reachable {n : Nat} (h : Reachable c n s) : Inv c s := by
  obtain ⟨es, hr⟩ := h
  exact (Inv.init c n).run hr

/-- with the repaired remap test nothing is lost: the pool plus the readers in use make up the
    capacity -/
theorem pool_exact {n : Nat} (hfx : c.fixed = true) (h : Reachable c n s) :
    s.pool.length + held s = c.cap := by
  have hi := Inv.reachable h
  have hp := hi.pool
  have hl : lost s = 0 := by
    unfold lost
    rw [List.countP_eq_zero]
    intro st hst
    obtain ⟨i, hlt, rfl⟩ := List.getElem_of_mem hst
    have := hi.safe.noFail hfx i _ (List.getElem?_eq_getElem hlt)
    cases hs : s.threads[i] <;> simp_all [TState.isFailed, TState.lostReader]
  unfold PoolInv at hp
  omega

end CStore
