/-
  C04 — the safety invariant of the concurrent store and the file-level facts it rests on:
  linked files only grow, a complete record never changes, fresh ids are unused.
-/
import BitcaskVerif.Conc.StoreMutex

namespace CStore

/-- `r` is a complete record at `loc` in a file that can be opened by name -/
def RecordAt (s : Sys) (loc : Loc) (r : Rec) : Prop :=
  ∃ f, s.file loc.fid = some f ∧ f.linked = true ∧ recAt f.recs loc.pos = some r ∧ r.size = loc.len

/-- the highest file id in use -/
def top (s : Sys) : Fid := if s.mg.on then s.mg.out else s.active

/-- what an index entry / a pending merge copy promises about key `k` -/
def Points (s : Sys) (k : Key) (loc : Loc) : Prop :=
  ∃ r v, RecordAt s loc r ∧ r.key = k ∧ r.val = some v ∧ AL.get k s.amap = some v

def WriterOK (s : Sys) : Prop :=
  ∀ (t : Tid) r loc, (s.threads[t]? = some (.wAppended r loc) ∨
      s.threads[t]? = some (.wAccounted r loc)) → RecordAt s loc r

/-- what a `get` that holds a read guard knows -/
def GuardFacts (c : Cfg) (s : Sys) (pc : RPc) (k : Key) (rd : Reader) (loc : Loc)
    (gv : Option Val) : Prop :=
  AL.get k s.index = some loc ∧ gv = AL.get k s.amap ∧
    (pc ≠ .looked → ∃ m, AL.get loc.fid rd.cache = some m ∧
      (pc = .remapped → c.fixed = true → loc.pos + loc.len ≤ m))

def GuardOK (c : Cfg) (s : Sys) : Prop :=
  ∀ (t : Tid) pc k rd loc gv, s.threads[t]? = some (.gRead pc k rd loc gv) →
    GuardFacts c s pc k rd loc gv

def NoFail (s : Sys) : Prop := ∀ (t : Tid) st, s.threads[t]? = some st → st.isFailed = false

structure SafeInv (c : Cfg) (s : Sys) : Prop where
  fresh : ∀ f, top s < f → s.file f = none
  activeOk : s.mg.on = false → ∃ f, s.file s.active = some f ∧ f.linked = true
  index : ∀ k loc, AL.get k s.index = some loc → Points s k loc
  amapDom : ∀ k, AL.get k s.index = none → AL.get k s.amap = none
  writer : WriterOK s
  guard : GuardOK c s
  mgSel : s.mg.on = true →
      (∀ f ∈ s.mg.sel, f ≤ s.active) ∧ s.active < s.mg.out ∧ (∀ f ∈ s.mg.todo, f ∈ s.mg.sel)
  mgOut : s.mg.on = true → ∃ o, s.file s.mg.out = some o ∧ o.linked = true
  mgPending : s.mg.on = true → ∀ k nl, s.mg.pending = some (k, nl) →
      s.mg.inShard = true ∧ c.shardOf k = s.mg.shard ∧ nl.fid = s.mg.out ∧ Points s k nl
  visited : s.mg.on = true → ∀ k loc, AL.get k s.index = some loc → loc.fid ∈ s.mg.sel →
      s.mg.shard ≤ c.shardOf k
  wlock : s.mg.on = true → s.mg.inShard = true → guardFree c s s.mg.shard = true
  noFail : c.fixed = true → NoFail s

/-! ### files -/

/-- every file that can be opened by name keeps its records (possibly followed by new ones) -/
def FilesGrow (s s' : Sys) : Prop :=
  ∀ fid f, s.file fid = some f → f.linked = true →
    ∃ f' ys, s'.file fid = some f' ∧ f'.linked = true ∧ f'.recs = f.recs ++ ys

theorem RecordAt.grow {s s' : Sys} {loc : Loc} {r : Rec} (hg : FilesGrow s s')
    (h : RecordAt s loc r) : RecordAt s' loc r := by
  obtain ⟨f, hf, hl, hr, hs⟩ := h
  obtain ⟨f', ys, hf', hl', hrecs⟩ := hg _ _ hf hl
  exact ⟨f', hf', hl', by rw [hrecs]; exact recAt_append ys hr, hs⟩

theorem Points.grow {s s' : Sys} {k : Key} {loc : Loc} (hg : FilesGrow s s')
    (ha : s'.amap = s.amap) (h : Points s k loc) : Points s' k loc := by
  obtain ⟨r, v, hr, hk, hv, hm⟩ := h
  exact ⟨r, v, hr.grow hg, hk, hv, by rw [ha]; exact hm⟩

theorem FilesGrow.same {s s' : Sys} (h : s'.files = s.files) : FilesGrow s s' := by
  intro fid f hf hl
  exact ⟨f, [], by unfold Sys.file at *; rw [h]; exact hf, hl, by simp⟩

/-- creating a file under an unused id -/
theorem FilesGrow.create {s s' : Sys} {fid : Fid} {x : File} (hnone : s.file fid = none)
    (h : s'.files = AL.set fid x s.files) : FilesGrow s s' := by
  intro fid' f hf hl
  refine ⟨f, [], ?_, hl, by simp⟩
  unfold Sys.file at *
  rw [h, AL.get_set]
  by_cases hx : fid' = fid
  · subst hx; rw [hnone] at hf; cases hf
  · simp only [hx, ↓reduceIte]; exact hf

/-- appending to (or continuing a record in) an existing file -/
theorem FilesGrow.append {s s' : Sys} {fid : Fid} {f0 x : File} {ys : List Rec}
    (hf0 : s.file fid = some f0) (hx : x.recs = f0.recs ++ ys) (hxl : x.linked = f0.linked)
    (h : s'.files = AL.set fid x s.files) : FilesGrow s s' := by
  intro fid' f hf hl
  unfold Sys.file at *
  rw [h, AL.get_set]
  by_cases hx' : fid' = fid
  · subst hx'
    rw [hf0] at hf; cases hf
    exact ⟨x, ys, by simp, by rw [hxl]; exact hl, hx⟩
  · simp only [hx', ↓reduceIte]
    exact ⟨f, [], hf, hl, by simp⟩

theorem file_unlink_ne {files : List (Fid × File)} {f fid : Fid} (h : fid ≠ f) :
    AL.get fid (unlinkFile files f) = AL.get fid files := by
  unfold unlinkFile
  split
  · rw [AL.get_set]; simp [h]
  · rfl

theorem file_unlink_none {files : List (Fid × File)} {f fid : Fid} (h : AL.get fid files = none) :
    AL.get fid (unlinkFile files f) = none := by
  by_cases hx : fid = f
  · subst hx; unfold unlinkFile; rw [h]; exact h
  · rw [file_unlink_ne hx]; exact h

theorem RecordAt.unlink {s s' : Sys} {loc : Loc} {r : Rec} {f : Fid}
    (hfiles : s'.files = unlinkFile s.files f) (hne : loc.fid ≠ f) (h : RecordAt s loc r) :
    RecordAt s' loc r := by
  obtain ⟨x, hx, hl, hr, hs⟩ := h
  refine ⟨x, ?_, hl, hr, hs⟩
  unfold Sys.file at *
  rw [hfiles, file_unlink_ne hne]; exact hx

theorem shardOf_le (c : Cfg) (k : Key) : c.shardOf k ≤ c.nsh := by
  unfold Cfg.shardOf
  have := Nat.mod_lt (c.shardFn k) (show 0 < c.nsh + 1 by omega)
  omega

/-! ### read guards -/

theorem guardFree_get {c : Cfg} {s : Sys} {sh : Nat} {t : Tid} {st : TState}
    (h : guardFree c s sh = true) (hth : s.threads[t]? = some st) : st.guard c ≠ some sh := by
  have := all_get h hth
  simpa using this

theorem guardFree_set {c : Cfg} {s s' : Sys} {sh : Nat} {t : Tid} {st' : TState}
    (h : guardFree c s sh = true) (hthreads : s'.threads = s.threads.set t st')
    (hg : st'.guard c ≠ some sh) : guardFree c s' sh = true := by
  unfold guardFree at *
  rw [hthreads]
  exact all_set h (by simpa using hg)

/-! ### thread-indexed parts under an update of one thread -/

theorem WriterOK.set {s s' : Sys} {t : Tid} {st' : TState} (h : WriterOK s)
    (hthreads : s'.threads = s.threads.set t st')
    (hg : ∀ loc r, RecordAt s loc r → RecordAt s' loc r)
    (hnew : ∀ r loc, (st' = .wAppended r loc ∨ st' = .wAccounted r loc) → RecordAt s' loc r) :
    WriterOK s' := by
  intro t' r loc hx
  rw [hthreads] at hx
  rcases hx with hx | hx
  · rcases get_set_thread hx with ⟨_, hst⟩ | ⟨_, hx'⟩
    · exact hnew r loc (.inl hst.symm)
    · exact hg _ _ (h t' r loc (.inl hx'))
  · rcases get_set_thread hx with ⟨_, hst⟩ | ⟨_, hx'⟩
    · exact hnew r loc (.inr hst.symm)
    · exact hg _ _ (h t' r loc (.inr hx'))

theorem WriterOK.same {s s' : Sys} (h : WriterOK s) (hthreads : s'.threads = s.threads)
    (hg : ∀ loc r, RecordAt s loc r → RecordAt s' loc r) : WriterOK s' := by
  intro t' r loc hx
  rw [hthreads] at hx
  exact hg _ _ (h t' r loc hx)

theorem GuardOK.set {c : Cfg} {s s' : Sys} {t : Tid} {st' : TState} (h : GuardOK c s)
    (hthreads : s'.threads = s.threads.set t st')
    (hold : ∀ (t' : Tid) pc k rd loc gv, t' ≠ t → s.threads[t']? = some (.gRead pc k rd loc gv) →
      AL.get k s'.index = AL.get k s.index ∧ AL.get k s'.amap = AL.get k s.amap)
    (hnew : ∀ pc k rd loc gv, st' = .gRead pc k rd loc gv → GuardFacts c s' pc k rd loc gv) :
    GuardOK c s' := by
  intro t' pc k rd loc gv hx
  rw [hthreads] at hx
  rcases get_set_thread hx with ⟨_, hst⟩ | ⟨hne, hx'⟩
  · exact hnew _ _ _ _ _ hst.symm
  · obtain ⟨h1, h2, h3⟩ := h t' pc k rd loc gv hx'
    obtain ⟨e1, e2⟩ := hold t' pc k rd loc gv hne hx'
    exact ⟨by rw [e1]; exact h1, by rw [e2]; exact h2, h3⟩

theorem GuardOK.same {c : Cfg} {s s' : Sys} (h : GuardOK c s) (hthreads : s'.threads = s.threads)
    (hold : ∀ (t' : Tid) pc k rd loc gv, s.threads[t']? = some (.gRead pc k rd loc gv) →
      AL.get k s'.index = AL.get k s.index ∧ AL.get k s'.amap = AL.get k s.amap) :
    GuardOK c s' := by
  intro t' pc k rd loc gv hx
  rw [hthreads] at hx
  obtain ⟨h1, h2, h3⟩ := h t' pc k rd loc gv hx
  obtain ⟨e1, e2⟩ := hold t' pc k rd loc gv hx
  exact ⟨by rw [e1]; exact h1, by rw [e2]; exact h2, h3⟩

theorem NoFail.set {s s' : Sys} {t : Tid} {st' : TState} (h : NoFail s)
    (hthreads : s'.threads = s.threads.set t st') (hnew : st'.isFailed = false) : NoFail s' := by
  intro t' x hx
  rw [hthreads] at hx
  rcases get_set_thread hx with ⟨_, hst⟩ | ⟨_, hx'⟩
  · rw [hst]; exact hnew
  · exact h t' x hx'

end CStore
