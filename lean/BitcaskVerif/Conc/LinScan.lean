/-
  The linearization-point meta-theorem on traces: `Scan sp h s th → TraceLinearizable sp h`.
  Proof: the operations in the order of their linearization-point events are the witness. While
  scanning, an operation record keeps the time of its linearization point in the `resp` field; the
  real response times are collected in `rs` (keyed by that time) and filled in at the end.
-/
import BitcaskVerif.Conc.LinTrace

namespace Lin

variable {σ Op Res : Type}

structure Good (sp : Spec σ Op Res) (h : List (Ev Op Res)) (s : σ) (th : Nat → TSt Op Res)
    (L : List (OpRec Op Res)) (rs : Nat → Option Nat) : Prop where
  legal : LegalFrom sp sp.init L s
  sorted : L.Pairwise fun a b => a.resp < b.resp
  bounds : ∀ r ∈ L, r.inv < r.resp ∧ r.resp < h.length
  invAt : ∀ r ∈ L, EvAt h r.inv (.inv r.tid r.op)
  statusSome : ∀ r ∈ L, ∀ j, rs r.resp = some j →
    r.resp < j ∧ EvAt h j (.resp r.tid r.res) ∧ Quiet h r.tid r.inv j
  statusNone : ∀ r ∈ L, rs r.resp = none →
    th r.tid = .lined r.op r.res r.inv r.resp ∧ Quiet h r.tid r.inv h.length
  cover : ∀ j t res, EvAt h j (.resp t res) → ∃ r ∈ L, rs r.resp = some j
  called : ∀ t op i, th t = .called op i → EvAt h i (.inv t op) ∧ Quiet h t i h.length
  lined : ∀ t op res i lp, th t = .lined op res i lp → (⟨t, op, res, i, lp⟩ : OpRec Op Res) ∈ L ∧ rs lp = none
  invNodup : L.Pairwise fun a b => a.inv ≠ b.inv
  rsBound : ∀ x j, rs x = some j → x < h.length
  invCover : ∀ i t op, EvAt h i (.inv t op) → (∃ r ∈ L, r.inv = i) ∨ th t = .called op i

theorem eq_of_sorted {L : List (OpRec Op Res)} (hs : L.Pairwise fun a b => a.resp < b.resp)
    {a b : OpRec Op Res} (ha : a ∈ L) (hb : b ∈ L) (e : a.resp = b.resp) : a = b := by
  induction L with
  | nil => cases ha
  | cons x xs ih =>
    rw [List.pairwise_cons] at hs
    rcases List.mem_cons.mp ha with rfl | ha' <;> rcases List.mem_cons.mp hb with rfl | hb'
    · rfl
    · have := hs.1 b hb'; omega
    · have := hs.1 a ha'; omega
    · exact ih hs.2 ha' hb'

theorem Good.nil (sp : Spec σ Op Res) : Good sp [] sp.init (fun _ => .idle) [] (fun _ => none) := by
  constructor
  · rfl
  · exact List.Pairwise.nil
  · intro r hr; cases hr
  · intro r hr; cases hr
  · intro r hr; cases hr
  · intro r hr; cases hr
  · intro j t res he; cases he
  · intro t op i ht; cases ht
  · intro t op res i lp ht; cases ht
  · exact List.Pairwise.nil
  · intro x j hx; cases hx
  · intro i t op he; cases he

theorem Good.inv {sp : Spec σ Op Res} {h : List (Ev Op Res)} {s : σ} {th : Nat → TSt Op Res}
    {L : List (OpRec Op Res)} {rs : Nat → Option Nat} (g : Good sp h s th L rs) (t : Nat) (op : Op)
    (hidle : th t = .idle) :
    Good sp (.inv t op :: h) s (upd th t (.called op h.length)) L rs := by
  constructor
  · exact g.legal
  · exact g.sorted
  · intro r hr; have := g.bounds r hr; simp only [List.length_cons]; omega
  · intro r hr; exact (g.invAt r hr).cons _
  · intro r hr j hj
    obtain ⟨a, b, d⟩ := g.statusSome r hr j hj
    exact ⟨a, b.cons _, d.cons_of_le _ (Nat.le_of_lt b.lt)⟩
  · intro r hr hn
    obtain ⟨a, b⟩ := g.statusNone r hr hn
    have hne : r.tid ≠ t := by intro e; rw [e, hidle] at a; cases a
    exact ⟨by rw [upd_ne _ _ hne]; exact a, b.snoc (fun _ e => hne e.symm)⟩
  · intro j t' res he
    rcases he.cons_inv with ⟨_, b⟩ | ⟨_, b⟩
    · cases b
    · exact g.cover j t' res b
  · intro t' op' i ht
    by_cases htt : t' = t
    · subst htt
      rw [upd_same] at ht; cases ht
      refine ⟨EvAt.head _ _, ?_⟩
      intro m e h1 h2; simp only [List.length_cons] at h2; omega
    · rw [upd_ne _ _ htt] at ht
      obtain ⟨a, b⟩ := g.called t' op' i ht
      exact ⟨a.cons _, b.snoc (fun _ e => htt e.symm)⟩
  · intro t' op' res i lp ht
    by_cases htt : t' = t
    · subst htt; rw [upd_same] at ht; cases ht
    · rw [upd_ne _ _ htt] at ht; exact g.lined t' op' res i lp ht
  · exact g.invNodup
  · intro x j hx; have := g.rsBound x j hx; simp only [List.length_cons]; omega
  · intro i' t' op' he
    rcases he.cons_inv with ⟨a, b⟩ | ⟨_, b⟩
    · cases b; right; rw [upd_same, a]
    · rcases g.invCover i' t' op' b with hl | hr
      · exact .inl hl
      · right
        have hne : t' ≠ t := by intro e; rw [e, hidle] at hr; cases hr
        rw [upd_ne _ _ hne]; exact hr

theorem Good.lin {sp : Spec σ Op Res} {h : List (Ev Op Res)} {s : σ} {th : Nat → TSt Op Res}
    {L : List (OpRec Op Res)} {rs : Nat → Option Nat} (g : Good sp h s th L rs) (t : Nat) (op : Op)
    (i : Nat) (hcalled : th t = .called op i) :
    Good sp (.lin t (sp.apply s op).2 :: h) (sp.apply s op).1
      (upd th t (.lined op (sp.apply s op).2 i h.length))
      (L ++ [⟨t, op, (sp.apply s op).2, i, h.length⟩]) rs := by
  obtain ⟨hinv, hquiet⟩ := g.called t op i hcalled
  have hrsn : rs h.length = none := by
    cases hr : rs h.length with
    | none => rfl
    | some j => have := g.rsBound _ _ hr; omega
  constructor
  · exact legalFrom_append (o := ⟨t, op, (sp.apply s op).2, i, h.length⟩) g.legal rfl
  · rw [List.pairwise_append]
    refine ⟨g.sorted, List.pairwise_singleton _ _, ?_⟩
    intro a ha b hb
    simp only [List.mem_singleton] at hb; subst hb
    exact (g.bounds a ha).2
  · intro r hr
    simp only [List.length_cons]
    rcases List.mem_append.mp hr with hr | hr
    · have := g.bounds r hr; omega
    · simp only [List.mem_singleton] at hr; subst hr
      have := hinv.lt
      exact ⟨this, Nat.lt_succ_self _⟩
  · intro r hr
    rcases List.mem_append.mp hr with hr | hr
    · exact (g.invAt r hr).cons _
    · simp only [List.mem_singleton] at hr; subst hr; exact hinv.cons _
  · intro r hr j hj
    rcases List.mem_append.mp hr with hr | hr
    · obtain ⟨a, b, d⟩ := g.statusSome r hr j hj
      exact ⟨a, b.cons _, d.cons_of_le _ (Nat.le_of_lt b.lt)⟩
    · simp only [List.mem_singleton] at hr; subst hr
      rw [hrsn] at hj; cases hj
  · intro r hr hn
    rcases List.mem_append.mp hr with hr | hr
    · obtain ⟨a, b⟩ := g.statusNone r hr hn
      have hne : r.tid ≠ t := by intro e; rw [e, hcalled] at a; cases a
      exact ⟨by rw [upd_ne _ _ hne]; exact a, b.snoc (fun e => by cases e)⟩
    · simp only [List.mem_singleton] at hr; subst hr
      exact ⟨upd_same _ _ _, hquiet.snoc (fun e => by cases e)⟩
  · intro j t' res he
    rcases he.cons_inv with ⟨_, b⟩ | ⟨_, b⟩
    · cases b
    · obtain ⟨r, hr, hj⟩ := g.cover j t' res b
      exact ⟨r, List.mem_append_left _ hr, hj⟩
  · intro t' op' i' ht
    by_cases htt : t' = t
    · subst htt; rw [upd_same] at ht; cases ht
    · rw [upd_ne _ _ htt] at ht
      obtain ⟨a, b⟩ := g.called t' op' i' ht
      exact ⟨a.cons _, b.snoc (fun e => by cases e)⟩
  · intro t' op' res i' lp ht
    by_cases htt : t' = t
    · subst htt
      rw [upd_same] at ht; cases ht
      exact ⟨List.mem_append_right _ (List.mem_singleton.mpr rfl), hrsn⟩
    · rw [upd_ne _ _ htt] at ht
      obtain ⟨a, b⟩ := g.lined t' op' res i' lp ht
      exact ⟨List.mem_append_left _ a, b⟩
  · rw [List.pairwise_append]
    refine ⟨g.invNodup, List.pairwise_singleton _ _, ?_⟩
    intro a ha b hb e
    simp only [List.mem_singleton] at hb; subst hb
    have e' : a.inv = i := e
    have hat := g.invAt a ha
    rw [e'] at hat
    have htid : a.tid = t := by
      have := hat.functional hinv
      cases this; rfl
    cases hr : rs a.resp with
    | some j =>
      obtain ⟨x, y, _⟩ := g.statusSome a ha j hr
      have hb := (g.bounds a ha).1
      exact hquiet j _ (by omega) y.lt y rfl htid
    | none =>
      obtain ⟨x, _⟩ := g.statusNone a ha hr
      rw [htid, hcalled] at x; cases x
  · intro x j hx; have := g.rsBound x j hx; simp only [List.length_cons]; omega
  · intro i' t' op' he
    rcases he.cons_inv with ⟨_, b⟩ | ⟨_, b⟩
    · cases b
    · rcases g.invCover i' t' op' b with ⟨r, hr, e⟩ | hr
      · exact .inl ⟨r, List.mem_append_left _ hr, e⟩
      · by_cases htt : t' = t
        · subst htt
          rw [hcalled] at hr; cases hr
          exact .inl ⟨_, List.mem_append_right _ (List.mem_singleton.mpr rfl), rfl⟩
        · right; rw [upd_ne _ _ htt]; exact hr

theorem Good.resp {sp : Spec σ Op Res} {h : List (Ev Op Res)} {s : σ} {th : Nat → TSt Op Res}
    {L : List (OpRec Op Res)} {rs : Nat → Option Nat} (g : Good sp h s th L rs) (t : Nat) (op : Op)
    (res : Res) (i lp : Nat) (hlined : th t = .lined op res i lp) :
    Good sp (.resp t res :: h) s (upd th t .idle) L (upd rs lp (some h.length)) := by
  obtain ⟨hmem, hrsn⟩ := g.lined t op res i lp hlined
  obtain ⟨hb1, hb2⟩ := g.bounds _ hmem
  simp only at hb1 hb2
  constructor
  · exact g.legal
  · exact g.sorted
  · intro r hr; have := g.bounds r hr; simp only [List.length_cons]; omega
  · intro r hr; exact (g.invAt r hr).cons _
  · intro r hr j hj
    by_cases hlp : r.resp = lp
    · have : r = ⟨t, op, res, i, lp⟩ := eq_of_sorted g.sorted hr hmem hlp
      subst this
      rw [upd_same] at hj; cases hj
      obtain ⟨_, hq⟩ := g.statusNone _ hmem hrsn
      exact ⟨hb2, EvAt.head _ _, hq.cons_of_le _ (Nat.le_refl _)⟩
    · rw [upd_ne _ _ hlp] at hj
      obtain ⟨a, b, d⟩ := g.statusSome r hr j hj
      exact ⟨a, b.cons _, d.cons_of_le _ (Nat.le_of_lt b.lt)⟩
  · intro r hr hn
    by_cases hlp : r.resp = lp
    · rw [hlp, upd_same] at hn; cases hn
    · rw [upd_ne _ _ hlp] at hn
      obtain ⟨a, b⟩ := g.statusNone r hr hn
      have hne : r.tid ≠ t := by
        intro e; rw [e, hlined] at a
        cases a; exact hlp rfl
      exact ⟨by rw [upd_ne _ _ hne]; exact a, b.snoc (fun _ e => hne e.symm)⟩
  · intro j t' res' he
    rcases he.cons_inv with ⟨a, b⟩ | ⟨_, b⟩
    · cases b
      exact ⟨_, hmem, by simp only [upd_same, a]⟩
    · obtain ⟨r, hr, hj⟩ := g.cover j t' res' b
      refine ⟨r, hr, ?_⟩
      have hlp : r.resp ≠ lp := by intro e; rw [e, hrsn] at hj; cases hj
      rw [upd_ne _ _ hlp]; exact hj
  · intro t' op' i' ht
    by_cases htt : t' = t
    · subst htt; rw [upd_same] at ht; cases ht
    · rw [upd_ne _ _ htt] at ht
      obtain ⟨a, b⟩ := g.called t' op' i' ht
      exact ⟨a.cons _, b.snoc (fun _ e => htt e.symm)⟩
  · intro t' op' res' i' lp' ht
    by_cases htt : t' = t
    · subst htt; rw [upd_same] at ht; cases ht
    · rw [upd_ne _ _ htt] at ht
      obtain ⟨a, b⟩ := g.lined t' op' res' i' lp' ht
      refine ⟨a, ?_⟩
      have hlp : lp' ≠ lp := by
        intro e
        have := eq_of_sorted g.sorted a hmem e
        cases this; exact htt rfl
      rw [upd_ne _ _ hlp]; exact b
  · exact g.invNodup
  · intro x j hx
    simp only [List.length_cons]
    by_cases hlp : x = lp
    · omega
    · rw [upd_ne _ _ hlp] at hx; have := g.rsBound x j hx; omega
  · intro i' t' op' he
    rcases he.cons_inv with ⟨_, b⟩ | ⟨_, b⟩
    · cases b
    · rcases g.invCover i' t' op' b with hl | hr
      · exact .inl hl
      · right
        have hne : t' ≠ t := by intro e; rw [e, hlined] at hr; cases hr
        rw [upd_ne _ _ hne]; exact hr

theorem Scan.good {sp : Spec σ Op Res} {h : List (Ev Op Res)} {s : σ} {th : Nat → TSt Op Res}
    (hs : Scan sp h s th) : ∃ L rs, Good sp h s th L rs := by
  induction hs with
  | nil => exact ⟨_, _, Good.nil sp⟩
  | inv t op _ hidle ih => obtain ⟨L, rs, g⟩ := ih; exact ⟨_, _, g.inv t op hidle⟩
  | lin t op i _ hc ih => obtain ⟨L, rs, g⟩ := ih; exact ⟨_, _, g.lin t op i hc⟩
  | resp t op res i lp _ hl ih => obtain ⟨L, rs, g⟩ := ih; exact ⟨_, _, g.resp t op res i lp hl⟩

theorem legalFrom_map {sp : Spec σ Op Res} (f : OpRec Op Res → OpRec Op Res)
    (hf : ∀ o, (f o).op = o.op ∧ (f o).res = o.res) {s s' : σ} {l : List (OpRec Op Res)}
    (h : LegalFrom sp s l s') : LegalFrom sp s (l.map f) s' := by
  induction l generalizing s with
  | nil => exact h
  | cons x xs ih =>
    simp only [List.map_cons, LegalFrom] at h ⊢
    rw [(hf x).1, (hf x).2]
    exact ⟨h.1, ih h.2⟩

/-- **Linearization points (trace form).** If every operation of a trace has a linearization-point
    event between its invocation and its response, and the specification stepped at these events
    in their order yields exactly the results the operations return, then the trace is
    linearizable. -/
theorem Scan.linearizable {sp : Spec σ Op Res} {h : List (Ev Op Res)} {s : σ}
    {th : Nat → TSt Op Res} (hs : Scan sp h s th) : TraceLinearizable sp h := by
  obtain ⟨L, rs, g⟩ := hs.good
  let f : OpRec Op Res → OpRec Op Res := fun r => { r with resp := (rs r.resp).getD h.length }
  refine ⟨L.map f, ?_, ?_, ?_, ⟨s, legalFrom_map f (fun _ => ⟨rfl, rfl⟩) g.legal⟩, ?_⟩
  · intro o ho
    obtain ⟨r, hr, rfl⟩ := List.mem_map.mp ho
    cases hj : rs r.resp with
    | some j =>
      obtain ⟨a, b, d⟩ := g.statusSome r hr j hj
      have hb := (g.bounds r hr).1
      left
      refine ⟨g.invAt r hr, ?_, ?_, ?_⟩ <;> simp only [f, hj, Option.getD_some]
      · exact b
      · omega
      · exact d
    | none =>
      obtain ⟨_, b⟩ := g.statusNone r hr hj
      right
      refine ⟨g.invAt r hr, ?_, b⟩
      simp only [f, hj, Option.getD_none]
  · intro j t res he
    obtain ⟨r, hr, hj⟩ := g.cover j t res he
    exact ⟨f r, List.mem_map_of_mem hr, by simp only [f, hj, Option.getD_some]⟩
  · rw [List.pairwise_map]; exact g.invNodup
  · unfold Respects
    rw [List.pairwise_map]
    refine List.Pairwise.imp_of_mem ?_ g.sorted
    intro a b ha hb hab hlt
    have h1 := g.bounds a ha
    have h2 := g.bounds b hb
    have h3 : b.resp < (f b).resp := by
      cases hj : rs b.resp with
      | some j =>
        simp only [f, hj, Option.getD_some]
        exact (g.statusSome b hb j hj).1
      | none => simp only [f, hj, Option.getD_none]; exact h2.2
    have h4 : (f a).inv = a.inv := rfl
    omega

/-- when the scan ends with every thread idle, every invocation of the trace has its response -/
theorem Scan.quiescent {sp : Spec σ Op Res} {h : List (Ev Op Res)} {s : σ}
    {th : Nat → TSt Op Res} (hs : Scan sp h s th) (hidle : ∀ t, th t = .idle) : Quiescent h := by
  obtain ⟨L, rs, g⟩ := hs.good
  intro i t op he
  rcases g.invCover i t op he with ⟨r, hr, e⟩ | hc
  · have hat := g.invAt r hr
    rw [e] at hat
    have htid : r.tid = t := by have := hat.functional he; injection this
    cases hj : rs r.resp with
    | none =>
      have := (g.statusNone r hr hj).1
      rw [hidle] at this; cases this
    | some j =>
      obtain ⟨a, b, _⟩ := g.statusSome r hr j hj
      have := (g.bounds r hr).1
      exact ⟨j, r.res, by omega, htid ▸ b⟩
  · rw [hidle] at hc; cases hc

end Lin
