/-
  C18 — the background tasks of `src/storage/bitcask.rs` (`merge_on_interval`, `sync_on_interval`):
  a timer loop that wakes after a delay drawn from `[interval·(1−jitter), interval·(1+jitter)]`
  (merge) or exactly `interval` (sync), then checks the trigger / syncs.
  Time is in abstract ticks (`Nat`); the model fixes only what the code fixes: every delay is
  within `[lo, hi]`. Core Lean only.
-/
import BitcaskVerif.Store.Model

namespace Background

/-- wake-up times of a timer loop started at `t0` whose successive delays are `ds` -/
def wakes : Nat → List Nat → List Nat
  | _, [] => []
  | t, d :: ds => (t + d) :: wakes (t + d) ds

theorem mem_wakes_gt {t : Nat} {ds : List Nat} (hpos : ∀ d, d ∈ ds → 0 < d) :
    ∀ w, w ∈ wakes t ds → t < w := by
  induction ds generalizing t with
  | nil => intro w hw; simp [wakes] at hw
  | cons d ds ih =>
    intro w hw
    simp only [wakes, List.mem_cons] at hw
    have hd := hpos d List.mem_cons_self
    rcases hw with rfl | hw
    · omega
    · have := ih (fun x hx => hpos x (List.mem_cons_of_mem _ hx)) w hw
      omega

/-- the last wake-up time (or the start time if the loop never woke) -/
def lastWake : Nat → List Nat → Nat
  | t, [] => t
  | t, d :: ds => lastWake (t + d) ds

/-- **No gap longer than `hi`.** If every delay is at most `hi`, then from any instant `t` between
    the start and the last wake-up, the loop wakes again within `hi` ticks. -/
theorem wake_within (hi : Nat) : ∀ (ds : List Nat) (t0 t : Nat), (∀ d, d ∈ ds → d ≤ hi) →
    t0 ≤ t → t < lastWake t0 ds → ∃ w, w ∈ wakes t0 ds ∧ t < w ∧ w ≤ t + hi := by
  intro ds
  induction ds with
  | nil => intro t0 t _ h1 h2; simp [lastWake] at h2; omega
  | cons d ds ih =>
    intro t0 t hd h1 h2
    have hdle := hd d List.mem_cons_self
    by_cases hlt : t < t0 + d
    · exact ⟨t0 + d, by simp [wakes], hlt, by omega⟩
    · obtain ⟨w, hw, a, b⟩ := ih (t0 + d) t (fun x hx => hd x (List.mem_cons_of_mem _ hx)) (by omega) h2
      exact ⟨w, by simp [wakes, hw], a, b⟩

/-- the merge task's delay bounds for `interval` ms and jitter `jn/jd ∈ [0,1]`, in units of
    `1/jd` ms (so that the bounds are exact integers): `interval·(jd ∓ jn)` -/
def mergeLo (interval jn jd : Nat) : Nat := interval * (jd - jn)
def mergeHi (interval jn jd : Nat) : Nat := interval * (jd + jn)

theorem mergeLo_le_hi (interval jn jd : Nat) : mergeLo interval jn jd ≤ mergeHi interval jn jd := by
  unfold mergeLo mergeHi
  exact Nat.mul_le_mul_left _ (by omega)

end Background
