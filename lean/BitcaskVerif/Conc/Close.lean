/-
  C17 — closing the store (`Drop for Bitcask`, `Handle::{put,delete,get,merge,sync}`,
  `merge_on_interval` / `sync_on_interval` in `src/storage/bitcask.rs`, `src/shutdown.rs`).

  Dropping the store sets the `closed` flag and drops the only broadcast sender, which makes
  `shutdown.recv()` of both background tasks complete at once. Every handle operation (including
  the merge / sync a background task is about to run) tests `closed` before touching anything.
  Labelled transition system; core Lean only.
-/

namespace Close

inductive Worker where
  | top          -- evaluating `while !shutdown.is_shutdown()`
  | selecting (timerReady : Bool)   -- inside `select!{ sleep, shutdown.recv() }`
  | fired        -- the timer branch ran: about to check the trigger / about to sync
  | acting       -- about to call `handle.merge()` / `handle.sync()` on the blocking pool
  | exited
deriving DecidableEq, Repr

structure St where
  closed : Bool := false
  /-- the task's `Shutdown::shutdown` flag (set only by a completed `recv()`) -/
  seen : Bool := false
  worker : Worker := .top
  /-- number of file-system calls issued so far (by anybody) -/
  calls : Nat := 0
deriving DecidableEq, Repr

inductive Res where | ok | errClosed
deriving DecidableEq, Repr

/-- a client operation through a handle: `if closed { return Err(Closed) }`, otherwise it may
    issue `n` file-system calls -/
def op (s : St) (n : Nat) : St × Res :=
  if s.closed then (s, .errClosed) else ({ s with calls := s.calls + n }, .ok)

/-- dropping the owning `Bitcask` -/
def drop (s : St) : St := { s with closed := true }

/-- time passes: a pending timer becomes ready (environment step, not a worker step) -/
def tick (s : St) : St :=
  match s.worker with
  | .selecting _ => { s with worker := .selecting true }
  | _ => s

/-- the worker's own possible next states (`want`: whether the trigger asks for a merge;
    `n`: calls the merge / sync would issue if the store is open) -/
def own (s : St) (want : Bool) (n : Nat) : List St :=
  match s.worker with
  | .top => if s.seen then [{ s with worker := .exited }] else [{ s with worker := .selecting false }]
  | .selecting ready =>
    (if ready then [{ s with worker := .fired }] else []) ++
    (if s.closed then [{ s with worker := .exited, seen := true }] else [])
  | .fired => if want then [{ s with worker := .acting }] else [{ s with worker := .top }]
  | .acting => [{ (op s n).1 with worker := .top }]
  | .exited => []

/-- a finite run of worker steps -/
inductive Steps : St → Nat → St → Prop where
  | refl (s : St) : Steps s 0 s
  | step {s s1 s2 : St} {k : Nat} (want : Bool) (n : Nat) : s1 ∈ own s want n → Steps s1 k s2 → Steps s (k+1) s2

/-- how far the worker of a closed store is from having exited, in its own steps -/
def dist (s : St) : Nat :=
  match s.worker with
  | .exited => 0
  | .top => if s.seen then 1 else 2
  | .selecting false => 1
  | .selecting true => 5
  | .fired => 4
  | .acting => 3

theorem own_closed {s s' : St} {want : Bool} {n : Nat} (hc : s.closed = true) (h : s' ∈ own s want n) :
    s'.closed = true ∧ s'.calls = s.calls ∧ dist s' < dist s := by
  unfold own at h
  cases hw : s.worker with
  | top =>
    simp only [hw] at h
    by_cases hs : s.seen
    · simp only [hs, ↓reduceIte, List.mem_singleton] at h; subst h
      simp [dist, hw, hc, hs]
    · simp only [hs, Bool.false_eq_true, ↓reduceIte, List.mem_singleton] at h; subst h
      simp [dist, hw, hc, hs]
  | selecting ready =>
    simp only [hw, hc, ↓reduceIte, List.mem_append] at h
    rcases h with h | h
    · cases ready with
      | false => simp at h
      | true =>
        simp only [↓reduceIte, List.mem_singleton] at h; subst h
        simp [dist, hw, hc]
    · simp only [List.mem_singleton] at h; subst h
      cases ready <;> simp [dist, hw, hc]
  | fired =>
    simp only [hw] at h
    cases want with
    | true => simp only [↓reduceIte, List.mem_singleton] at h; subst h; simp [dist, hw, hc]
    | false =>
      simp only [Bool.false_eq_true, ↓reduceIte, List.mem_singleton] at h; subst h
      simp only [dist, hw, hc]
      split <;> simp
  | acting =>
    simp only [hw, List.mem_singleton] at h; subst h
    simp only [op, hc, ↓reduceIte, dist, hw]
    split <;> simp
  | exited => simp [hw] at h

/-- a closed, not yet exited worker can always take a step of its own (it never has to wait for
    its timer) -/
theorem own_progress (s : St) (want : Bool) (n : Nat) (hc : s.closed = true) (hne : s.worker ≠ .exited) :
    own s want n ≠ [] := by
  unfold own
  cases hw : s.worker with
  | top => simp only; split <;> simp
  | selecting ready => simp [hc]
  | fired => simp only; split <;> simp
  | acting => simp
  | exited => exact absurd hw hne

theorem dist_zero {s : St} (h : dist s = 0) : s.worker = .exited := by
  unfold dist at h
  cases hw : s.worker with
  | exited => rfl
  | top => simp [hw] at h; split at h <;> simp at h
  | selecting r => cases r <;> simp [hw] at h
  | fired => simp [hw] at h
  | acting => simp [hw] at h

theorem steps_closed {s s' : St} {k : Nat} (h : Steps s k s') (hc : s.closed = true) :
    s'.closed = true ∧ s'.calls = s.calls ∧ dist s' + k ≤ dist s := by
  induction h with
  | refl s => exact ⟨hc, rfl, Nat.le_refl _⟩
  | step want n hm _ ih =>
    obtain ⟨a, b, c⟩ := own_closed hc hm
    obtain ⟨d, e, f⟩ := ih a
    exact ⟨d, by rw [e, b], by omega⟩

end Close
