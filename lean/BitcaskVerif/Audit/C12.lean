import BitcaskVerif.Props.C12

#print axioms Store.c12_rebuild
#print axioms Store.c12_open
#print axioms Store.c12_agree
