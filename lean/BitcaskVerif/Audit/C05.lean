import BitcaskVerif.Props.C05

#print axioms Store.c05_now
#print axioms Store.c05_restart_partial
#print axioms Store.c05_restartN_partial
#print axioms Store.c05_restart_present
#print axioms Store.c05_restart_iff
#print axioms Store.c05_restart_partial_shadow
#print axioms Store.c05_restart_counterexample
