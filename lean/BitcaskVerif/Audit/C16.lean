import BitcaskVerif.Props.C16
import BitcaskVerif.Props.C06Bytes
#print axioms Shutdown.c16_no_tear
#print axioms Shutdown.c16_acked
#print axioms Shutdown.c16_acked_in_flight
#print axioms Shutdown.c16_progress
#print axioms Shutdown.c16_terminates
#print axioms Shutdown.writing_bound
#print axioms Shutdown.c16_done_iff
-- byte-level statements (Props/C06Bytes.lean)
#print axioms Resp.c16_bytes_whole_replies
#print axioms Resp.c16_bytes_whole_replies_plain
