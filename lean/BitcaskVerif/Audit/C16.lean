import BitcaskVerif.Props.C16
#print axioms Shutdown.c16_no_tear
#print axioms Shutdown.c16_acked
#print axioms Shutdown.c16_acked_in_flight
#print axioms Shutdown.c16_progress
#print axioms Shutdown.c16_terminates
#print axioms Shutdown.writing_bound
#print axioms Shutdown.c16_done_iff
