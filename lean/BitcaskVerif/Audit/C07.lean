import BitcaskVerif.Props.C07
#print axioms Resp.c07_check_total
#print axioms Resp.c07_parse_total
#print axioms Resp.c07_parse_frame_total
#print axioms Resp.c07_check_parse_len
#print axioms Resp.c07_check_len_bounds
#print axioms Resp.c07_int_exact
#print axioms Resp.c07_int_reject
#print axioms Resp.c07_int_total
