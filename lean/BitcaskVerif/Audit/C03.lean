import BitcaskVerif.Props.C03

#print axioms Store.c03_frame_put
#print axioms Store.c03_frame_delete
#print axioms Store.c03_frame_merge
#print axioms Store.c03_frame_open
#print axioms Store.c03_put_cut
#print axioms Store.c03_delete_cut
#print axioms Store.c03_reopen_cut
#print axioms Store.c03_reachPD
#print axioms Store.c03_put_cut_reach_partial
#print axioms Store.c03_delete_cut_reach_partial
#print axioms Store.c03_history_partial
#print axioms Store.c03_lives_partial
#print axioms Store.c03_merge_cut_prefixes_partial
#print axioms Store.c03_merge_cut_partial
#print axioms Store.c03_merge_copy_cut_partial
#print axioms Store.c03_merge_copy_prefix
#print axioms Store.c03_merge_descending_counterexample
#print axioms Store.c03_payLen_bytes
#print axioms Store.c03_bytes_torn_append
#print axioms Store.c03_bytes_whole_append
#print axioms Store.c03_bytes_torn_hint
#print axioms Store.c03_bytes_disk
#print axioms Store.c03_history_merge_partial
