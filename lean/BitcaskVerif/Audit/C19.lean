import BitcaskVerif.Props.C19
#print axioms Store.c19_exact
#print axioms Store.c19_exact_file
#print axioms Store.c19_exact_perm
#print axioms Store.areach_merge
#print axioms Store.c19_exact_put_del
#print axioms Store.c19_counts
#print axioms Store.c19_no_underflow
#print axioms Store.c19_overwrite_live_pos
#print axioms Store.c19_entries_addressed
#print axioms Store.c19_exact_run
#print axioms Store.areach_good
#print axioms Store.areach_run
