import BitcaskVerif.Props.C18
#print axioms Store.c18_never
#print axioms Store.c18_always_iff
#print axioms Store.c18_frag_meaning
#print axioms Store.c18_no_trigger
#print axioms Background.c18_delay_range
#print axioms Background.c18_check_within
#print axioms Background.c18_sync_period
