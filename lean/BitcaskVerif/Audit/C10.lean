import BitcaskVerif.Props.C10
import BitcaskVerif.Props.C06Bytes
#print axioms Resp.c10_outcome
#print axioms Resp.c10_read_total
#print axioms Resp.c10_store
#print axioms Resp.c10_get_pure
#print axioms Resp.c10_alloc
-- byte-level statements (Props/C06Bytes.lean)
#print axioms Resp.c10_bytes_run_shape
#print axioms Resp.c10_bytes_run_shape_unique
#print axioms Resp.c10_bytes_serve
#print axioms Resp.c10_bytes_store
#print axioms Resp.c10_bytes_store_writes
