import BitcaskVerif.Props.C10
#print axioms Resp.c10_outcome
#print axioms Resp.c10_read_total
#print axioms Resp.c10_store
#print axioms Resp.c10_get_pure
#print axioms Resp.c10_alloc
