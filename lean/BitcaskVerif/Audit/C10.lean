import BitcaskVerif.Props.C10
import BitcaskVerif.Props.C06Bytes
import BitcaskVerif.Props.C10Utf8
#print axioms Resp.c10_outcome
#print axioms Resp.c10_read_total
#print axioms Resp.c10_store
#print axioms Resp.c10_get_pure
#print axioms Resp.c10_alloc
-- byte-level statements (Props/C06Bytes.lean)
#print axioms Resp.c10_bytes_run_shape
#print axioms Resp.c10_bytes_run_shape_unique
#print axioms Resp.c10_bytes_serve
#print axioms Resp.c10_bytes_store
#print axioms Resp.c10_bytes_store_writes
-- what the key validator accepts: exactly the UTF-8 encodings of sequences of Unicode scalar values (Props/C10Utf8.lean)
#print axioms Resp.validUtf8_complete
#print axioms Resp.validUtf8_sound
#print axioms Resp.validUtf8_iff
#print axioms Resp.validUtf8_cons_decode
#print axioms Resp.utf8_decode_unique
#print axioms Resp.validUtf8_first_byte
#print axioms Resp.validUtf8_append
#print axioms Resp.validUtf8_append_iff
#print axioms Resp.validUtf8_ascii
#print axioms Resp.validUtf8_singleton
#print axioms Resp.reject_lone_cont_80
#print axioms Resp.reject_lone_cont_BF
#print axioms Resp.reject_overlong2
#print axioms Resp.reject_overlong3
#print axioms Resp.reject_overlong4
#print axioms Resp.reject_surrogate
#print axioms Resp.reject_above_max
#print axioms Resp.reject_F5_FF
#print axioms Resp.reject_k_cont
#print axioms Resp.reject_truncated
#print axioms Resp.accept_e_acute
#print axioms Resp.accept_nichi
#print axioms Resp.accept_grinning
#print axioms Resp.encodeCp_extremes
#print axioms Resp.isScalar_iff_validChar
#print axioms Resp.encodeCp_char
#print axioms Resp.encodeCp_singleton
#print axioms Resp.validUtf8_string
#print axioms Resp.validUtf8_is_string
