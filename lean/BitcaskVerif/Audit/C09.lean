import BitcaskVerif.Props.C09

#print axioms Store.c09_put_synced
#print axioms Store.c09_delete_synced
#print axioms Store.c09_merge_synced
#print axioms Store.c09_merge_synced_monitor
#print axioms Store.c09_merge_targets
#print axioms Store.c09_trace_synced
#print axioms Store.c09_trace_synced_spec
#print axioms Store.c09_op_durable_partial
#print axioms Store.c09_durable_partial
#print axioms Store.c09_durable_fresh_partial
#print axioms Store.c09_boundary_synced
#print axioms Store.c09_merge_durable_prefixes_partial
#print axioms Store.c09_merge_durable_partial
#print axioms Store.c09_history_durable_partial
#print axioms Store.c09_history_durable_fresh_partial
#print axioms Store.c09_boundary_synced2
