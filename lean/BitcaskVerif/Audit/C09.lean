import BitcaskVerif.Props.C09
import BitcaskVerif.Props.C09Lives

#print axioms Store.c09_put_synced
#print axioms Store.c09_delete_synced
#print axioms Store.c09_merge_synced
#print axioms Store.c09_merge_synced_monitor
#print axioms Store.c09_merge_targets
#print axioms Store.c09_trace_synced
#print axioms Store.c09_trace_synced_spec
#print axioms Store.c09_op_durable_partial
#print axioms Store.c09_durable_partial
#print axioms Store.c09_durable_fresh_partial
#print axioms Store.c09_boundary_synced
#print axioms Store.c09_merge_durable_prefixes_partial
#print axioms Store.c09_merge_durable_partial
#print axioms Store.c09_history_durable_partial
#print axioms Store.c09_history_durable_fresh_partial
#print axioms Store.c09_boundary_synced2
-- any number of lives, crashes inside merges included (Props/C09Lives.lean)
#print axioms Store.c09_lives_images
#print axioms Store.c09_lives_reachL
#print axioms Store.c09_lives_invariant
#print axioms Store.c09_lives_op_durable_partial
#print axioms Store.c09_lives_merge_durable_prefixes_partial
#print axioms Store.c09_lives_merge_partial
#print axioms Store.c09_lives_next_life
#print axioms Store.c09_lives_boundary_synced
#print axioms Store.c09_lives_cut_back
#print axioms Store.powerLoss3_self
#print axioms Store.pImg_powerLoss3
#print axioms Store.pS1_reach
#print axioms Store.pS1_eq
#print axioms Store.c09_lives_tail_counterexample
