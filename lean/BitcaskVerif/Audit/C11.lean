import BitcaskVerif.Props.C11
#print axioms CStore.c11_lin
#print axioms CStore.c11_lin_store
#print axioms Lin.of_linearization_points
#print axioms Lin.widen
#print axioms Lin.widen_po
#print axioms Lin.Scan.linearizable
#print axioms CStore.c11_lin_idle
