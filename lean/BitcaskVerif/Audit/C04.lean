import BitcaskVerif.Props.C04
#print axioms CStore.c04_safe
#print axioms CStore.c04_safe_needs_fix
#print axioms CStore.c04_pool
#print axioms CStore.c04_pool_general
#print axioms CStore.c04_lin
#print axioms CStore.c04_lin_complete
#print axioms CStore.c04_get_value
#print axioms CStore.c04_progress
#print axioms CStore.c04_progress_needs_fix
#print axioms CStore.c04_lin_idle
#print axioms CStore.c04_maps
#print axioms CStore.c04_bounded_own
#print axioms CStore.c04_bounded_other
