import BitcaskVerif.Props.C06
import BitcaskVerif.Props.C06Bytes
import BitcaskVerif.Props.C06Client
#print axioms Resp.c06_cmd_roundtrip
#print axioms Resp.c06_replies
#print axioms Resp.c06_get_exact
#print axioms Resp.c06_del_duplicate
#print axioms Resp.c06_del_absent_present
-- byte-level statements (Props/C06Bytes.lean)
#print axioms Resp.c06_bytes_fits_iff
#print axioms Resp.c06_bytes_reqWire
#print axioms Resp.c06_bytes
#print axioms Resp.c06_bytes_enc
#print axioms Resp.c06_bytes_replies_enc
#print axioms Resp.c06_bytes_segmentation_irrelevant
#print axioms Resp.c06_bytes_bytewise_whole_perreq
#print axioms Resp.c06_bytes_prefix_frame
#print axioms Resp.c06_bytes_prefix
#print axioms Resp.c06_bytes_prefix_of_run
#print axioms Resp.c06_bytes_cut
#print axioms Resp.c06_bytes_then_anything
-- the client library (Props/C06Client.lean)
#print axioms Resp.c06_client_get
#print axioms Resp.c06_client_set
#print axioms Resp.c06_client_del
#print axioms Resp.c06_client_error_reply
#print axioms Resp.c06_client_eof
#print axioms Resp.c06_client_get_accepts
#print axioms Resp.c06_client_set_accepts
#print axioms Resp.c06_client_del_accepts
#print axioms Resp.c06_client_conversation
