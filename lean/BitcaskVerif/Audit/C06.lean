import BitcaskVerif.Props.C06
#print axioms Resp.c06_cmd_roundtrip
#print axioms Resp.c06_replies
#print axioms Resp.c06_get_exact
#print axioms Resp.c06_del_duplicate
#print axioms Resp.c06_del_absent_present
