import BitcaskVerif.Props.C02

#print axioms Store.c02_reopen
#print axioms Store.c02_reopen_idempotent
#print axioms Store.c02_reopenN
#print axioms Store.c02_history
