import BitcaskVerif.Props.C08
#print axioms Resp.c08_encode_total
#print axioms Resp.c08_roundtrip
#print axioms Resp.c08_parse_frame
#print axioms Resp.c08_prefix
#print axioms Resp.c08_stream
#print axioms Resp.c08_stream'
#print axioms Resp.c08_stream_enc
#print axioms Resp.c08_stream_bytewise
#print axioms Resp.c08_stream_whole
#print axioms Resp.c08_eof_inside
