import BitcaskVerif.Props.C01
#print axioms Store.c01_refines
#print axioms Store.c01_refines_from
#print axioms Store.c01_reads_sound
#print axioms Store.step_refines
#print axioms Store.mergeWith_inv_abs
#print axioms Store.put_abs
#print axioms Store.delete_abs
#print axioms Store.get_abs
#print axioms Store.fresh_eq_open
