import BitcaskVerif.Props.C17
#print axioms Close.c17_closed
#print axioms Close.c17_drop_closes
#print axioms Close.c17_worker_silent
#print axioms Close.c17_worker_exits_bound
#print axioms Close.c17_worker_never_stuck
#print axioms Close.c17_tick_closed
