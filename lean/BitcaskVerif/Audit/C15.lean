import BitcaskVerif.Props.C15
#print axioms ConnLimit.c15_inv
#print axioms ConnLimit.c15_bound
#print axioms ConnLimit.c15_no_leak
#print axioms ConnLimit.c15_progress
#print axioms ConnLimit.c15_finish_any_cause
#print axioms ConnLimit.c15_accept_failure_free
#print axioms ConnLimit.c15_accept_after_failures
#print axioms AcceptBackoff.c15_backoff_survives
#print axioms AcceptBackoff.c15_backoff_gives_up
#print axioms AcceptBackoff.c15_backoff_zero_min
#print axioms AcceptBackoff.c15_backoff_gives_up_only_on_failures
