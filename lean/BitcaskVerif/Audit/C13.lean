import BitcaskVerif.Props.C13
#print axioms Store.c13_nonincreasing
#print axioms Store.c13_lower
#print axioms Store.c13_exact
#print axioms Store.c13_live_pairs
#print axioms Store.c13_fresh_size
#print axioms Store.c13_exact_fresh
#print axioms Store.c13_idem
#print axioms Store.c13_select_valid
#print axioms Store.c13_merge_nonincreasing
#print axioms Store.c13_all_eligible
#print axioms Store.c13_merge_exact
