def hello := "world"
