import Driver.Util
import BitcaskVerif.Conc.StoreLTS

/-!
  Line protocol for the concurrent store LTS (`CStore.step`, the object of the C04 / C11 theorems).

  The driver never changes a state except through `CStore.step`: `lts.run` only *chooses* the next
  event of one thread (the deterministic program order of that thread's operation) and applies it,
  so every state it reports is `CStore.Reachable` and the theorems apply to it.

    lts.init <cap> <nthreads> <maxFile> <fixed 0|1> <k:sh,k:sh,…|->   shard of each key (others: shard 0)
    lts.inv <tid> get <k> | put <k> <v> <size> <c1+c2+…|-> | del <k> <size> <c1+…|-> | merge <f,f,…|->
    lts.run <tid> <stop|end>        advance thread <tid> until it is at <stop>, responds, blocks or fails
    lts.index | lts.pool | lts.thread <tid> | lts.files
-/

namespace Driver

open CStore

structure LS where
  cfg : Cfg := { cap := 1, maxFile := 0, nsh := 0, shardFn := fun _ => 0, fixed := true }
  sys : Sys := {}
  /-- per thread: sizes of the `write(2)` calls the record in flight is split into -/
  chunks : List (Nat × List Nat) := []
  /-- keys a merge copies first within a shard (the hash map's iteration order is not the model's business) -/
  pref : List Nat := []

def natList (sep : String) (s : String) : Option (List Nat) :=
  if s = "-" then some [] else (s.splitOn sep).mapM String.toNat?

def parseShards (s : String) : Option (List (Nat × Nat)) :=
  if s = "-" then some [] else
    (s.splitOn ",").mapM fun kv =>
      match kv.splitOn ":" with
      | [k, sh] => do let k ← k.toNat?; let sh ← sh.toNat?; pure (k, sh)
      | _ => none

def showLoc (l : Loc) : String := s!"{l.fid}:{l.pos}:{l.len}"

def showOptVal : Option Nat → String
  | none => "nil"
  | some v => toString v

def showRes : Res → String
  | .unit => "ok"
  | .found v => showOptVal v
  | .deleted b => toString b

def showFail : Fail → String
  | .sliceOutOfMapping => "slice-out-of-mapping"
  | .openUnlinked => "open-unlinked"
  | .garbage => "garbage"
  | .noFile => "no-file"

/-- name of the schedule point of the real code a thread state corresponds to -/
def stopName (s : Sys) : TState → String
  | .idle => "idle"
  | .wInv _ => "w.invoked"
  | .wWriting _ => "io.write"
  | .wAppended _ _ => "write.appended"
  | .wAccounted r _ => if r.val.isSome then "put.before_publish" else "del.before_publish"
  | .wPublished _ => "w.published"
  | .respond _ => "responding"
  | .gInv _ => "g.invoked"
  | .gHave _ _ => "get.checkout"
  | .gRead .looked _ _ _ _ => "get.lookup"
  | .gRead .ensured _ _ _ _ => "reader.at"
  | .gRead .remapped _ _ _ _ => "reader.remapped"
  | .gSliced _ _ _ => "g.sliced"
  | .gCheckin _ _ => "get.before_checkin"
  | .mInv _ => "m.invoked"
  | .merging =>
    if s.mg.pending.isSome then "merge.copied"
    else if !s.mg.inShard && decide (s.mg.shard = 0) then "m.locked"
    else if s.mg.inShard then "m.in-shard"
    else "merge.before_unlink?"
  | .mDone => "m.done"
  | .failed f _ => "failed " ++ showFail f

/-- the next event of thread `t` in program order (`none`: idle or failed) -/
def nextAct (l : LS) (t : Nat) : Option Act :=
  match l.sys.threads[t]? with
  | none => none
  | some st =>
    match st with
    | .idle => none
    | .wInv _ => some .lock
    | .wWriting r =>
      match l.sys.file l.sys.active with
      | none => some (.chunk 1)
      | some f =>
        match AL.get t l.chunks with
        | some (c :: _) => some (.chunk c)
        | _ => some (.chunk (r.size - f.part))
    | .wAppended _ _ => some .account
    | .wAccounted _ _ => some .publish
    | .wPublished _ => some .unlock
    | .respond _ => some .resp
    | .gInv _ => some .checkout
    | .gHave _ _ => some .lookup
    | .gRead .looked _ _ _ _ => some (.ensure [])
    | .gRead .ensured _ _ _ _ => some .remap
    | .gRead .remapped _ _ _ _ => some .slice
    | .gSliced _ _ _ => some .release
    | .gCheckin _ _ => some .checkin
    | .mInv _ => some .lock
    | .merging =>
      let s := l.sys
      if s.mg.pending.isSome then some .mRepoint
      else if s.mg.inShard then
        let elig := s.index.filter fun (k, loc) => l.cfg.shardOf k == s.mg.shard && s.mg.sel.contains loc.fid
        match (l.pref.filter fun k => elig.any fun (k', _) => k' == k), elig with
        | k :: _, _ => some (.mCopy k)
        | [], (k, _) :: _ => some (.mCopy k)
        | [], [] => some .mLeave
      else if s.mg.shard ≤ l.cfg.nsh then some .mEnter
      else if s.mg.todo.isEmpty then some .mNewActive else some .mUnlink
    | .mDone => some .unlock
    | .failed _ _ => none

def popChunk (l : LS) (t : Nat) (a : Act) : LS :=
  match a with
  | .chunk _ =>
    match AL.get t l.chunks with
    | some (_ :: rest) => { l with chunks := AL.set t rest l.chunks }
    | _ => l
  | _ => l

/-- is the thread at the stop the caller asked for? (`merge.copied:n`, `io.write:n`: the n-th time) -/
def atStop (l : LS) (t : Nat) (stop : String) : Bool :=
  match l.sys.threads[t]? with
  | none => false
  | some st =>
    let nm := stopName l.sys st
    if stop = "merge.before_unlink" then
      st == .merging && !l.sys.mg.inShard && decide (l.cfg.nsh < l.sys.mg.shard) && l.sys.mg.pending.isNone &&
        decide (l.sys.mg.todo.length = l.sys.mg.sel.length)
    else nm == stop

/-- advance thread `t`: `at <stop>` / `done <result>` / `blocked <event>` / `failed <kind>` -/
def ltsRun : Nat → LS → Nat → String → Nat → LS × String
  | 0, l, _, _, _ => (l, "out-of-fuel")
  | fuel+1, l, t, stop, skip =>
    match l.sys.threads[t]? with
    | none => (l, "no-thread")
    | some (.failed f _) => (l, "failed " ++ showFail f)
    | some st =>
      match nextAct l t with
      | none => (l, "idle")
      | some a =>
        match step l.cfg l.sys (t, a) with
        | none => (l, "blocked " ++ (stopName l.sys st))
        | some s' =>
          let l' := popChunk { l with sys := s' } t a
          match st, a with
          | .respond res, .resp => (l', "done " ++ showRes res)
          | _, _ =>
            if atStop l' t stop then
              if skip = 0 then (l', "at " ++ stop) else ltsRun fuel l' t stop (skip - 1)
            else ltsRun fuel l' t stop skip

def showIndex (s : Sys) : String :=
  let es := s.index.map fun (k, loc) => (k, s!"{k}={showLoc loc}")
  let sorted := es.toArray.qsort (fun a b => a.1 < b.1) |>.toList
  if sorted.isEmpty then "index -" else "index " ++ " ".intercalate (sorted.map (·.2))

def showFiles (s : Sys) : String :=
  let es := s.files.filter (fun (_, f) => f.linked)
  let sorted := es.toArray.qsort (fun a b => a.1 < b.1) |>.toList
  "files " ++ " ".intercalate (sorted.map fun (fid, f) => s!"{fid}:{f.size}")

def ltsStep (l : LS) (toks : List String) : Option (LS × String) :=
  match toks with
  | ["lts.init", cap, n, mf, fx, sh] => do
    let cap ← cap.toNat?; let n ← n.toNat?; let mf ← mf.toNat?; let fx ← fx.toNat?
    let shards ← parseShards sh
    let nsh := shards.foldl (fun m (_, x) => max m x) 0
    let cfg : Cfg := { cap := cap, maxFile := mf, nsh := nsh, fixed := fx != 0
                       shardFn := fun k => (AL.get k shards).getD 0 }
    pure ({ cfg := cfg, sys := init cap n }, "ok")
  | ["lts.pref", ks] => do
    let ks ← natList "," ks
    pure ({ l with pref := ks }, "ok")
  | ["lts.inv", t, "get", k] => do
    let t ← t.toNat?; let k ← k.toNat?
    match step l.cfg l.sys (t, .invGet k) with
    | some s => pure ({ l with sys := s }, "ok")
    | none => pure (l, "busy")
  | ["lts.inv", t, "put", k, v, size, cs] => do
    let t ← t.toNat?; let k ← k.toNat?; let v ← v.toNat?; let size ← size.toNat?; let cs ← natList "+" cs
    if size = 0 then none else
    match step l.cfg l.sys (t, .invPut k v (size - 1)) with
    | some s => pure ({ l with sys := s, chunks := AL.set t cs l.chunks }, "ok")
    | none => pure (l, "busy")
  | ["lts.inv", t, "del", k, size, cs] => do
    let t ← t.toNat?; let k ← k.toNat?; let size ← size.toNat?; let cs ← natList "+" cs
    if size = 0 then none else
    match step l.cfg l.sys (t, .invDel k (size - 1)) with
    | some s => pure ({ l with sys := s, chunks := AL.set t cs l.chunks }, "ok")
    | none => pure (l, "busy")
  | ["lts.inv", t, "merge", sel] => do
    let t ← t.toNat?; let sel ← natList "," sel
    match step l.cfg l.sys (t, .invMerge sel) with
    | some s => pure ({ l with sys := s }, "ok")
    | none => pure (l, "busy")
  | ["lts.run", t, stop] => do
    let t ← t.toNat?
    let (stop, skip) := match stop.splitOn ":" with
      | [s, n] => (s, (n.toNat?.getD 1) - 1)
      | _ => (stop, 0)
    let (l', a) := ltsRun 100000 l t stop skip
    pure (l', a)
  | ["lts.index"] => some (l, showIndex l.sys)
  | ["lts.files"] => some (l, showFiles l.sys)
  | ["lts.pool"] => some (l, s!"pool {l.sys.pool.length}")
  | ["lts.active"] => some (l, s!"active {l.sys.active}")
  | ["lts.thread", t] => do
    let t ← t.toNat?
    match l.sys.threads[t]? with
    | some st => pure (l, stopName l.sys st)
    | none => pure (l, "no-thread")
  | _ => none

end Driver
