import Driver.Util
import BitcaskVerif.Conc.ConnLimit
import BitcaskVerif.Conc.AcceptBackoff

namespace Driver

structure CL where
  st : ConnLimit.St := ConnLimit.init 0
  closed : List Nat := []       -- connections the client already ended while still pending

/-- listener runs until it blocks; a connection that was ended by its client before being accepted
    is accepted and its handler ends at once (returning its permit) -/
def clSettle : Nat → CL → CL
  | 0, c => c
  | fuel+1, c =>
    let s := ConnLimit.settle 8 c.st
    match s.handlers.find? (fun h => c.closed.contains h) with
    | some h =>
      match ConnLimit.step s (.finish h .clientClose) with
      | some s' => clSettle fuel { st := s', closed := c.closed.erase h }
      | none => { c with st := s }
    | none => { c with st := s }

def clServed (c : CL) : String :=
  "served " ++ (if c.st.handlers.isEmpty then "-" else ",".intercalate (c.st.handlers.map toString)) ++
    s!" permits={c.st.permits} holding={c.st.holding} pending={c.st.pending.length}"

def clStep (c : CL) (toks : List String) : Option (CL × String) :=
  match toks with
  | ["cl.init", m] => m.toNat?.map fun m => let c' := clSettle 64 { st := ConnLimit.init m }; (c', clServed c')
  | ["cl.connect", id] =>
    id.toNat?.bind fun id =>
      (ConnLimit.step c.st (.connect id)).map fun s => let c' := clSettle 64 { c with st := s }; (c', clServed c')
  | ["cl.finish", id] =>
    id.toNat?.map fun id =>
      match ConnLimit.step c.st (.finish id .clientClose) with
      | some s => let c' := clSettle 64 { c with st := s }; (c', clServed c')
      | none =>
        -- still pending: remember that its client is gone
        let c' := clSettle 64 { c with closed := id :: c.closed }; (c', clServed c')
  | ["cl.acceptfail", n] =>
    -- the next n accept(2) calls fail (the waiting connection stays in the backlog): n `acceptFail` steps of the LTS
    n.toNat?.bind fun n =>
      ((List.replicate n (ConnLimit.Ev.acceptFail false)).foldlM ConnLimit.step c.st).map fun s =>
        let c' := clSettle 64 { c with st := s }; (c', clServed c')
  | ["cl.backoff", mn, mx, k] =>
    -- `Listener::accept` with min/max back-off against k failing accept(2) calls and then a connection:
    -- how it ends, accept(2) calls made, milliseconds slept (AcceptBackoff.accept)
    mn.toNat?.bind fun mn => mx.toNat?.bind fun mx => k.toNat?.map fun k =>
      let r := AcceptBackoff.accept mn mx (List.replicate k false ++ [true])
      let o := match r.1 with | .accepted => "accepted" | .gaveUp => "gaveUp" | .waiting => "waiting"
      (c, s!"{o} {r.2.1} {r.2.2}")
  | ["cl.served"] => some (c, clServed c)
  | _ => none

end Driver
