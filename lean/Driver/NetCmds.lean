import Driver.Util
import Driver.StoreCmds
import BitcaskVerif.Resp.Server
import BitcaskVerif.Resp.Client
import BitcaskVerif.Resp.ServerFault

namespace Driver
open Resp

structure NS where
  kv : KV := KV.empty

def hendStr : HEnd → String
  | .peerClosed => "clean"
  | .reset => "reset"
  | .frameError e => "frame-error:" ++ errName e
  | .cmdError .badFrame => "cmd-error:badframe"
  | .cmdError .badCommand => "cmd-error:badcommand"
  | .cmdError .badArgs => "cmd-error:badargs"
  | .cmdError .notUtf8 => "cmd-error:notutf8"
  | .panic => "panic"
  | .running => "running"

def netStep (ns : NS) (toks : List String) : Option (NS × String) :=
  match toks with
  | "srv.start" :: _ => some ({ kv := KV.empty }, "ok")
  | "serve" :: segs :: _ =>
    let parts := if segs = "." then [] else segs.splitOn "|"
    match parts.mapM bytesOfHex with
    | some ss =>
      let (kv, out, e) := serve ns.kv ss
      some ({ kv := kv }, s!"{hexTok out} {hendStr e}")
    | none => none
  | "cl.call" :: op :: rest =>
    -- the client library: `cl.call get <k> reply=<hex|eof>` / `set <k> <v> reply=…` / `del <k,k,…> reply=…`
    -- answers what the call returns and the request bytes it sends
    let reply := rest.getLast?.bind fun t => if t.startsWith "reply=" then some (t.drop 6).toString else none
    let args := rest.dropLast
    let res : Option ReadRes := reply.bind fun r =>
      if r == "eof" then some .cleanEnd else (bytesOfHex r).map fun bs => (readAll [bs]).headD .cleanEnd
    let errStr : CliErr → String
      | .storage m => "err storage:" ++ hexTok m
      | .badFrame => "err badframe"
      | .reset => "err reset"
      | .frameError _ => "err frame"
      | .panic => "err panic"
    let cmd : Option Cmd := match op, args with
      | "get", [k] => (bytesOfHex k).map .get
      | "set", [k, v] => do let k ← bytesOfHex k; let v ← bytesOfHex v; pure (.set k v)
      | "del", [ks] => ((ks.splitOn ",").mapM bytesOfHex).map .del
      | _, _ => none
    match cmd, res with
    | some c, some r =>
      let out := match c with
        | .get _ => (match cliGet r with | .ok (some v) => "ok B:" ++ hexTok v | .ok none => "ok N" | .error e => errStr e)
        | .set _ _ => (match cliSet r with | .ok () => "ok" | .error e => errStr e)
        | .del _ => (match cliDel r with | .ok n => s!"ok I:{n}" | .error e => errStr e)
      let req := match encode (Cmd.toFrame c) with | some b => hexTok b | none => "unencodable"
      some (ns, out ++ " req=" ++ req)
    | _, _ => none
  | ["srvf.outcomes", req, probes] =>
    -- every way the server may treat the request `req` when at most one store call made for it fails: the reply (or `-`
    -- when the connection is dropped without one), then what the probe keys read in the running server and after a restart
    let replyTok : Frame → String
      | .simple b => "S:" ++ hexOfBytes b
      | .integer n => s!"I:{n}"
      | .null => "N"
      | .bulk v => "B:" ++ showVal v
      | _ => "?"
    let rd (m : KV) (k : List UInt8) : String := match m k with | some v => "B:" ++ showVal v | none => "N"
    match bytesOfHex req, (probes.splitOn ",").mapM bytesOfHex with
    | some rq, some ks =>
      match readAll [rq] with
      | .frame f :: _ =>
        match Cmd.ofFrame f with
        | .ok c =>
          let s0 : SF := ⟨ns.kv, ns.kv⟩
          let rss : List (List CallRes) := [[]] ++ (List.range c.calls).flatMap fun i =>
            [List.replicate i CallRes.ok ++ [CallRes.failKept], List.replicate i CallRes.ok ++ [CallRes.failApplied]]
          let outs := rss.map fun rs =>
            let (s1, r) := applyCmdF s0 c rs
            (match r with | some f => replyTok f | none => "-") ++ "/" ++ ",".intercalate (ks.map (rd s1.live)) ++ "/" ++ ",".intercalate (ks.map (rd s1.disk))
          some (ns, " ".intercalate outs.eraseDups)
        | .error _ => some (ns, "bad-command")
      | _ => some (ns, "bad-frame")
    | _, _ => none
  | ["kv.get", k] =>
    (bytesOfHex k).map fun k => (ns, match ns.kv k with | some v => showVal v | none => "nil")
  | ["kv.set", k, v] =>
    match bytesOfHex k, valTok v with
    | some k, some v => some ({ kv := ns.kv.set k v }, "ok")
    | _, _ => none
  | _ => none

end Driver
