import Driver.Util
import Driver.StoreCmds
import BitcaskVerif.Resp.Server

namespace Driver
open Resp

structure NS where
  kv : KV := KV.empty

def hendStr : HEnd → String
  | .peerClosed => "clean"
  | .reset => "reset"
  | .frameError e => "frame-error:" ++ errName e
  | .cmdError .badFrame => "cmd-error:badframe"
  | .cmdError .badCommand => "cmd-error:badcommand"
  | .cmdError .badArgs => "cmd-error:badargs"
  | .cmdError .notUtf8 => "cmd-error:notutf8"
  | .panic => "panic"
  | .running => "running"

def netStep (ns : NS) (toks : List String) : Option (NS × String) :=
  match toks with
  | "srv.start" :: _ => some ({ kv := KV.empty }, "ok")
  | "serve" :: segs :: _ =>
    let parts := if segs = "." then [] else segs.splitOn "|"
    match parts.mapM bytesOfHex with
    | some ss =>
      let (kv, out, e) := serve ns.kv ss
      some ({ kv := kv }, s!"{hexTok out} {hendStr e}")
    | none => none
  | ["kv.get", k] =>
    (bytesOfHex k).map fun k => (ns, match ns.kv k with | some v => showVal v | none => "nil")
  | ["kv.set", k, v] =>
    match bytesOfHex k, valTok v with
    | some k, some v => some ({ kv := ns.kv.set k v }, "ok")
    | _, _ => none
  | _ => none

end Driver
