/- Line-protocol helpers: hex, frames as text. Core Lean only. -/
import BitcaskVerif.Resp.Conn

namespace Driver
open Resp

def hexDigit (n : Nat) : Char :=
  if n < 10 then Char.ofNat (48 + n) else Char.ofNat (87 + n)

def hexOfBytes (bs : List UInt8) : String :=
  String.ofList (bs.flatMap fun b => [hexDigit (b.toNat / 16), hexDigit (b.toNat % 16)])

def hexVal (c : Char) : Option Nat :=
  if '0' ≤ c ∧ c ≤ '9' then some (c.toNat - 48)
  else if 'a' ≤ c ∧ c ≤ 'f' then some (c.toNat - 87)
  else none

def bytesOfHexAux : List Char → List UInt8 → Option (List UInt8)
  | [], acc => some acc.reverse
  | [_], _ => none
  | a :: b :: rest, acc =>
    match hexVal a, hexVal b with
    | some x, some y => bytesOfHexAux rest (UInt8.ofNat (x * 16 + y) :: acc)
    | _, _ => none

/-- `-` is the empty byte string -/
def bytesOfHex (s : String) : Option (List UInt8) :=
  if s = "-" then some [] else bytesOfHexAux s.toList []

def hexTok (bs : List UInt8) : String := if bs.isEmpty then "-" else hexOfBytes bs

partial def frameToString : Frame → String
  | .simple s => "S:" ++ hexOfBytes s
  | .error s => "E:" ++ hexOfBytes s
  | .integer i => "I:" ++ toString i
  | .bulk b => "B:" ++ hexOfBytes b
  | .null => "N"
  | .array xs => "A[" ++ ",".intercalate (xs.map frameToString) ++ "]"

/-- parser for the frame text syntax; returns the frame and the rest of the input -/
partial def parseFrameText (cs : List Char) : Option (Frame × List Char) :=
  let takeHex (cs : List Char) : List Char × List Char := cs.span fun c => (hexVal c).isSome
  match cs with
  | 'S' :: ':' :: r =>
    let (h, r') := takeHex r
    (bytesOfHexAux h []).map fun b => (.simple b, r')
  | 'E' :: ':' :: r =>
    let (h, r') := takeHex r
    (bytesOfHexAux h []).map fun b => (.error b, r')
  | 'B' :: ':' :: r =>
    let (h, r') := takeHex r
    (bytesOfHexAux h []).map fun b => (.bulk b, r')
  | 'I' :: ':' :: r =>
    let (h, r') := r.span fun c => c = '-' ∨ c.isDigit
    (String.ofList h).toInt?.map fun i => (.integer i, r')
  | 'N' :: r => some (.null, r)
  | 'A' :: '[' :: r =>
    let rec items (cs : List Char) (acc : List Frame) : Option (List Frame × List Char) :=
      match cs with
      | ']' :: r => some (acc.reverse, r)
      | _ =>
        match parseFrameText cs with
        | some (f, ',' :: r) => items r (f :: acc)
        | some (f, ']' :: r) => some ((f :: acc).reverse, r)
        | _ => none
    (items r []).map fun (xs, r') => (.array xs, r')
  | _ => none

def frameOfString (s : String) : Option Frame :=
  match parseFrameText s.toList with
  | some (f, []) => some f
  | _ => none

def errName : Err → String
  | .badEncoding => "badencoding"
  | .notInteger => "notinteger"
  | .notUtf8 => "notutf8"
  | .incomplete => "incomplete"

end Driver
