import Driver.Util
import BitcaskVerif.Store.Codec
import BitcaskVerif.Store.Spec
import BitcaskVerif.Store.FaultModel
import BitcaskVerif.Store.MergeFault

namespace Driver
open Store

def fnv64 (bs : List UInt8) : UInt64 :=
  bs.foldl (fun h b => (h ^^^ b.toUInt64) * 0x100000001b3) 0xcbf29ce484222325

def hex16 (n : UInt64) : String :=
  String.ofList ((List.range 16).reverse.map fun i => hexDigit ((n.toNat / 16 ^ i) % 16))

def showVal (bs : List UInt8) : String :=
  if bs.length ≤ 40 then hexTok bs else s!"#{bs.length}:{hex16 (fnv64 bs)}"

/-- value token: `-` | hex | hex*count -/
def valTok (s : String) : Option (List UInt8) :=
  match s.splitOn "*" with
  | [h] => bytesOfHex h
  | [h, n] =>
    match bytesOfHex h, n.toNat? with
    | some pat, some k => some ((List.replicate k pat).flatten)
    | _, _ => none
  | _ => none

structure SS where
  cfg : Cfg := {}
  st : St := {}
  opened : Bool := false
  tracing : Bool := false
  trace : List Call := []
  keys : List Key := []
  known : List Key := []     -- every key ever written (merge iteration covers these)
  fault : Option Store.Tr.Fault := none   -- fault that hits the next put / del (C20)
  mergeFault : Option (Nat × Nat) := none  -- (index of the failing call, bytes of a failing append that reached the file): hits the next merge pass (C20)

def fname (f : FName) : String :=
  (match f.kind with | .data => "d" | .hint => "h") ++ toString f.id

def zeroTs (bs : List UInt8) : List UInt8 := List.replicate (min 8 bs.length) 0 ++ bs.drop 8

def showCall : Call → String
  | .create f => "c:" ++ fname f
  | .append f p =>
    let b := zeroTs (encPayload p)
    s!"a:{fname f}:{b.length}:{hex16 (fnv64 b)}"
  | .fsync f => "s:" ++ fname f
  | .unlink f => "u:" ++ fname f

def traceSuffix (ss : SS) (calls : List Call) : String :=
  if ss.tracing then " | T " ++ " ".intercalate (calls.map showCall) else ""

def addCalls (ss : SS) (calls : List Call) : SS :=
  if ss.tracing then { ss with trace := ss.trace ++ calls } else ss

def joinOr (xs : List String) (sep : String) : String :=
  if xs.isEmpty then "-" else sep.intercalate xs

def lexLt : List UInt8 → List UInt8 → Bool
  | [], [] => false
  | [], _ :: _ => true
  | _ :: _, [] => false
  | a :: as, b :: bs => if a < b then true else if b < a then false else lexLt as bs

def dumpStr (s : St) : String :=
  let kd := (s.keydir.toArray.qsort fun a b => lexLt a.1 b.1).toList
  let kds := kd.map fun (k, l) => s!"{hexTok k}={l.fid}:{l.pos}:{l.len}"
  let st := (s.stats.toArray.qsort fun a b => a.1 < b.1).toList
  let sts := st.map fun (f, x) => s!"{f}={x.live}:{x.dead}:{x.deadBytes}"
  s!"keydir {joinOr kds ","} stats {joinOr sts ","} active={s.active} written={s.written}" ++
    (if s.bad then " BAD" else "")

def filesStr (d : Disk) : String :=
  let ds := d.data.map fun (id, rs) => (id, 0, s!"d{id}={fileSize rs + (AL.get id d.tails).getD 0}")
  let hs := d.hint.map fun (id, h) => (id, 1, s!"h{id}={hintFileSize h}")
  let all := ((ds ++ hs).toArray.qsort fun a b => a.1 < b.1 || (a.1 == b.1 && a.2.1 < b.2.1)).toList
  joinOr (all.map (·.2.2)) " "

def getStr (s : St) (k : Key) : String :=
  match get s k with
  | .value v => showVal v
  | .absent => "nil"
  | .corrupt => "corrupt"

/-! byte-level images for crash / power-loss cuts -/

def applyCallBytes (b : ByteDisk) (c : Call) (limit : Option Nat) : ByteDisk :=
  match c with
  | .create f =>
    (match f.kind with
     | .data => { b with data := AL.set f.id [] b.data }
     | .hint => { b with hint := AL.set f.id [] b.hint })
  | .append f p =>
    let bytes := encPayload p
    let bytes := match limit with | some n => bytes.take n | none => bytes
    (match f.kind with
     | .data => { b with data := AL.set f.id (((AL.get f.id b.data).getD []) ++ bytes) b.data }
     | .hint => { b with hint := AL.set f.id (((AL.get f.id b.hint).getD []) ++ bytes) b.hint })
  | .fsync _ => b
  | .unlink f =>
    (match f.kind with
     | .data => { b with data := AL.del f.id b.data }
     | .hint => { b with hint := AL.del f.id b.hint })

def imageOf (trace : List Call) (i b : Nat) : ByteDisk :=
  let base := (trace.take i).foldl (fun d c => applyCallBytes d c none) ({} : ByteDisk)
  if b > 0 then
    match trace[i]? with
    | some c => applyCallBytes base c (some b)
    | none => base
  else base

def truncImage (d : ByteDisk) (tr : List (FName × Nat)) : ByteDisk :=
  tr.foldl (fun d (f, n) =>
    match f.kind with
    | .data => (match AL.get f.id d.data with
                | some bs => { d with data := AL.set f.id (bs.take n) d.data }
                | none => d)
    | .hint => (match AL.get f.id d.hint with
                | some bs => { d with hint := AL.set f.id (bs.take n) d.hint }
                | none => d)) d

def openImage (keys : List Key) (b : ByteDisk) : String :=
  match b.toDisk with
  | none => "open-error serialization"
  | some d =>
    let (s, _) := openDisk d
    let parts := keys.map fun k => s!"{hexTok k}={getStr s k}"
    s!"opened {joinOr parts ","} active={s.active}" ++ (if s.bad then " BAD" else "")

def parseFName (s : String) : Option FName :=
  match s.toList with
  | 'd' :: r => (String.ofList r).toNat?.map fun n => ⟨.data, n⟩
  | 'h' :: r => (String.ofList r).toNat?.map fun n => ⟨.hint, n⟩
  | _ => none

def parseKV (toks : List String) : List (String × String) :=
  toks.filterMap fun t =>
    match t.splitOn "=" with
    | [k, v] => some (k, v)
    | _ => none

def lookupKV (kv : List (String × String)) (k : String) : Option String :=
  (kv.find? fun p => p.1 == k).map (·.2)

def parseFrac (s : String) : Option (Nat × Nat) :=
  match s.splitOn "/" with
  | [p, q] => match p.toNat?, q.toNat? with
    | some a, some b => some (a, b)
    | _, _ => none
  | _ => none

def cfgOf (kv : List (String × String)) : Cfg :=
  let base : Cfg := {}
  let mfs := ((lookupKV kv "mfs").bind String.toNat?).getD base.maxFile
  let sync := (lookupKV kv "sync") == some "always"
  let (fn, fd) := ((lookupKV kv "frag").bind parseFrac).getD (base.fragNum, base.fragDen)
  let dead := ((lookupKV kv "dead").bind String.toNat?).getD base.deadBytes
  let small := ((lookupKV kv "small").bind String.toNat?).getD base.smallFile
  let pol := (lookupKV kv "policy") == some "always"
  let (tn, td) := ((lookupKV kv "tfrag").bind parseFrac).getD (base.trigFragNum, base.trigFragDen)
  let tdead := ((lookupKV kv "tdead").bind String.toNat?).getD base.trigDeadBytes
  { maxFile := mfs, syncAlways := sync, fragNum := fn, fragDen := fd, deadBytes := dead, smallFile := small,
    policyAlways := pol, trigFragNum := tn, trigFragDen := td, trigDeadBytes := tdead }

def noteKey (ss : SS) (k : Key) : SS :=
  if ss.known.contains k then ss else { ss with known := ss.known ++ [k] }

/-- answer one store-mode request; `none` = not a store verb -/
def storeStep (ss : SS) (toks : List String) : Option (SS × String) :=
  match toks with
  | "cfg" :: rest => some ({ ss with cfg := cfgOf (parseKV rest) }, "ok")
  | ["dir", _] => some ({ ss with st := {}, opened := false, trace := [], known := [] }, "ok")
  | ["trace", onoff] => some ({ ss with tracing := onoff == "on" }, "ok")
  -- the wall clock is stepped: nothing in the model depends on the time of day
  | ["clock", _] => some (ss, "ok")
  | "keys" :: ks =>
    match ks.mapM bytesOfHex with
    | some l => some ({ ss with keys := l }, "ok")
    | none => none
  | ["open"] | ["reopen"] =>
    let (s, calls) := openDisk ss.st.disk
    some (addCalls { ss with st := s, opened := true } calls, "ok" ++ traceSuffix ss calls)
  | ["close"] => some ({ ss with opened := false }, "ok" ++ traceSuffix ss [])
  | ["mfault", "merge", j, torn] =>
    match j.toNat?, torn.toNat? with
    | some j, some t => some ({ ss with mergeFault := some (j, t) }, "ok")
    | _, _ => none
  | ["mfault", kind] =>
    -- the next put / del fails in the given way (kinds as in Store/FaultModel.lean)
    let f : Option Store.Tr.Fault := match kind.splitOn ":" with
      | ["small"] => some .appendSmall
      | ["large", n] => n.toNat?.map .appendLarge
      | ["fsync"] => some .fsync
      | ["create"] => some .create
      | _ => none
    f.map fun f => ({ ss with fault := some f }, "ok")
  | ["put", k, v] =>
    match bytesOfHex k, valTok v with
    | some k, some v =>
      if let some f := ss.fault then
        let (s, _) := Store.Tr.putF ss.cfg ss.st 0 k v (some f)
        let e := match f with | .appendSmall | .appendLarge _ => "err serialization" | _ => "err io"
        some (noteKey { ss with st := s, fault := none } k, e)
      else
      let (s, calls) := put ss.cfg ss.st 0 k v
      some (addCalls (noteKey { ss with st := s } k) calls, "ok" ++ traceSuffix ss calls)
    | _, _ => none
  | ["del", k] =>
    match bytesOfHex k with
    | some k =>
      if let some f := ss.fault then
        let (s, _) := Store.Tr.deleteF ss.cfg ss.st 0 k (some f)
        let e := match f with | .appendSmall | .appendLarge _ => "err serialization" | _ => "err io"
        some ({ ss with st := s, fault := none }, e)
      else
      let (s, b, calls) := delete ss.cfg ss.st 0 k
      some (addCalls { ss with st := s } calls, toString b ++ traceSuffix ss calls)
    | none => none
  | ["get", k] => (bytesOfHex k).map fun k => (ss, getStr ss.st k)
  | "merge" :: rest =>
    let kv := parseKV rest
    let obs : List Key := match lookupKV kv "order" with
      | some "-" | none => []
      | some s => (s.splitOn ",").filterMap bytesOfHex
    let order := obs ++ ss.known.filter (fun k => !obs.contains k)
    let sel := selectFiles ss.cfg ss.st
    let before := ss.st
    let (s, calls, failed) : St × List Call × Bool := match ss.mergeFault with
      | some (j, torn) =>
        -- the pass in which call j fails (`Store.mergeF true`: the order of the day); the move of the active file that
        -- may be left pending is made at once here (the real code makes it before its next append)
        let o := Store.mergeF true ss.cfg ss.st sel order j torn
        (o.p.move.1, o.calls ++ o.p.move.2, o.err)
      | none => let r := merge ss.cfg ss.st order; (r.1, r.2, false)
    let ss := { ss with mergeFault := none }
    let moved := order.filter fun k =>
      match AL.get k before.keydir with
      | some l => sel.contains l.fid
      | none => false
    let moved := moved.eraseDups
    let ans := (if failed then "err io" else "ok") ++ s!" sel={joinOr (sel.map toString) ","} order={joinOr (moved.map hexTok) ","}"
    some (addCalls { ss with st := s } calls, ans ++ traceSuffix ss calls)
  | ["sync"] =>
    let calls := [Call.fsync ⟨.data, ss.st.active⟩]
    some (addCalls ss calls, "ok" ++ traceSuffix ss calls)
  | ["hazard"] =>
    -- keys whose value a restart would change right now (model-only query; D3 classification)
    let (s2, _) := openDisk ss.st.disk
    let hz := ss.known.filter fun k => getStr ss.st k != getStr s2 k
    some (ss, s!"hazard {hz.length} " ++ ",".intercalate (hz.map hexTok))
  | ["canmerge"] => some (ss, toString (canMerge ss.cfg ss.st))
  | ["dump"] => some (ss, dumpStr ss.st)
  | ["truth"] =>
    let st := ((truth ss.st).toArray.qsort fun a b => a.1 < b.1).toList
    let sts := st.map fun (f, x) => s!"{f}={x.live}:{x.dead}:{x.deadBytes}"
    some (ss, s!"stats {joinOr sts ","}")
  | ["files"] => some (ss, filesStr ss.st.disk)
  | ["ncalls"] => some (ss, toString ss.trace.length)
  | ["calls"] => some (ss, " ".intercalate (ss.trace.map showCall))
  | ["cut", i, b] =>
    match i.toNat?, b.toNat? with
    | some i, some b => some (ss, openImage ss.keys (imageOf ss.trace i b))
    | _, _ => none
  | ["loss", i, b, tr] =>
    match i.toNat?, b.toNat? with
    | some i, some b =>
      let trs : List (FName × Nat) := if tr == "-" then [] else
        (tr.splitOn ",").filterMap fun p =>
          match p.splitOn "=" with
          | [f, n] => match parseFName f, n.toNat? with
            | some f, some n => some (f, n)
            | _, _ => none
          | _ => none
      some (ss, openImage ss.keys (truncImage (imageOf ss.trace i b) trs))
    | _, _ => none
  | ["restore", i, b] =>
    -- continue from the directory a crash at cut (i, b) leaves behind (next request: `open`)
    match i.toNat?, b.toNat? with
    | some i, some b =>
      let base := ss.trace.take i
      let part : List Call := if b > 0 then
        (match ss.trace[i]? with
         | some (.append f p) => [Call.append f (.raw ((encPayload p).take b))]
         | _ => []) else []
      let tr := base ++ part
      match (imageOf tr tr.length 0).toDisk with
      | some d => some ({ ss with trace := tr, st := { disk := d }, opened := false }, "ok")
      | none => some (ss, "restore-error")
    | _, _ => none
  | "d3cut" :: i :: b :: rest =>
    -- D3 classification for a cut (optionally of a power-loss image `f=n,…`: appends beyond the
    -- length a file is cut back to are gone): keys that have a tombstone (in the calls completed
    -- before the cut) in a file that has since been unlinked, with no record of the key written
    -- after that tombstone that survives in the image
    match i.toNat?, b.toNat? with
    | some i, some _ =>
      let trs : List (FName × Nat) := match rest with
        | [tr] => if tr == "-" then [] else
          (tr.splitOn ",").filterMap fun p =>
            match p.splitOn "=" with
            | [f, n] => match parseFName f, n.toNat? with
              | some f, some n => some (f, n)
              | _, _ => none
            | _ => none
        | _ => []
      -- (call, index, end offset of the append in its file)
      let withEnd : List (Call × Nat × Nat) :=
        ((ss.trace.take i).zipIdx.foldl (fun (acc : List (Call × Nat × Nat) × List (FName × Nat)) (c, j) =>
          match c with
          | .append f p =>
            let cur := ((acc.2.find? fun (g, _) => g == f).map (·.2)).getD 0
            let e := cur + (encPayload p).length
            (acc.1 ++ [(c, j, e)], (f, e) :: acc.2.filter fun (g, _) => g != f)
          | _ => (acc.1 ++ [(c, j, 0)], acc.2)) ([], [])).1
      let survives : Call → Nat → Bool := fun c e => match c with
        | .append f _ => match trs.find? fun (g, _) => g == f with
          | some (_, n) => decide (e ≤ n)
          | none => true
        | _ => true
      -- the files removed by the merge pass that issued the unlink at index `ju` of the WHOLE trace (the pass may
      -- extend beyond the cut): the maximal run of consecutive unlink calls around `ju`
      let full := ss.trace.zipIdx
      let isUnlink : Nat → Bool := fun j => match (ss.trace[j]? : Option Call) with | some (Call.unlink _) => true | _ => false
      let passOf : Nat → List Nat := fun ju =>
        let before := ((List.range ju).reverse.takeWhile isUnlink)
        let after := ((List.range (ss.trace.length - ju)).map (· + ju)).takeWhile isUnlink
        (before ++ after).filterMap fun j => match (ss.trace[j]? : Option Call) with
          | some (Call.unlink g) => if g.kind == .data then some g.id else none
          | _ => none
      let ks := ss.keys.filter fun k =>
        withEnd.any fun (c, t, _) => match c with
          | .append f (.ofRec r) =>
            r.key == k && r.val.isNone &&
            (withEnd.any fun (c2, j, _) => decide (j > t) && (match c2 with
                | .unlink g =>
                  g == f &&
                  -- D3 proper: an older value of the key sits in a file that this pass did NOT select (a value in a
                  -- selected file that merely has not been removed yet is a matter of removal order, not D3)
                  (full.any fun (c0, j0) => decide (j0 < t) && (match c0 with
                      | .append g0 (.ofRec r0) => r0.key == k && r0.val.isSome && g0.kind == .data && !(passOf j).contains g0.id
                      | _ => false))
                | _ => false)) &&
            !(withEnd.any fun (c2, j, e2) => decide (j > t) && (match c2 with
                | .append _ (.ofRec r2) => r2.key == k && survives c2 e2
                | _ => false))
          | _ => false
      some (ss, s!"d3 {ks.length} " ++ ",".intercalate (ks.map hexTok))
    | _, _ => none
  | ["nohints"] =>
    let d : Disk := { ss.st.disk with hint := [] }
    let (s, _) := openDisk d
    let parts := ss.keys.map fun k => s!"{hexTok k}={getStr s k}"
    some (ss, s!"opened {joinOr parts ","} active={s.active}" ++ (if s.bad then " BAD" else ""))
  | ["copyopen"] =>
    let (s, _) := openDisk ss.st.disk
    let parts := ss.keys.map fun k => s!"{hexTok k}={getStr s k}"
    some (ss, s!"opened {joinOr parts ","} active={s.active}" ++ (if s.bad then " BAD" else ""))
  | _ => none

end Driver
