import Driver.RespCmds
import Driver.StoreCmds

open Driver

partial def loop (h : IO.FS.Stream) (out : IO.FS.Stream) (ss : SS) : IO Unit := do
  let line ← h.getLine
  if line.isEmpty then return ()
  let toks := (line.trimAscii.toString.splitOn " ").filter (· ≠ "")
  match toks with
  | [] => out.putStrLn ""; loop h out ss
  | "#" :: _ => out.putStrLn line.trimAscii.toString; loop h out ss
  | _ =>
    match respStep toks with
    | some a => out.putStrLn a; loop h out ss
    | none =>
      match storeStep ss toks with
      | some (ss', a) => out.putStrLn a; loop h out ss'
      | none => out.putStrLn "bad-op"; loop h out ss

def main : IO Unit := do
  let stdin ← IO.getStdin
  let stdout ← IO.getStdout
  loop stdin stdout {}
