import Driver.RespCmds

open Driver

partial def loop (h : IO.FS.Stream) (out : IO.FS.Stream) : IO Unit := do
  let line ← h.getLine
  if line.isEmpty then return ()
  let toks := (line.trimAscii.toString.splitOn " ").filter (· ≠ "")
  match toks with
  | [] => out.putStrLn ""
  | "#" :: _ => out.putStrLn line.trimAscii.toString
  | _ =>
    match respStep toks with
    | some a => out.putStrLn a
    | none => out.putStrLn "bad-op"
  loop h out

def main : IO Unit := do
  let stdin ← IO.getStdin
  let stdout ← IO.getStdout
  loop stdin stdout
