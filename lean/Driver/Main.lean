import Driver.RespCmds
import Driver.StoreCmds
import Driver.NetCmds

open Driver

partial def loop (h : IO.FS.Stream) (out : IO.FS.Stream) (ss : SS) (ns : NS := {}) : IO Unit := do
  let line ← h.getLine
  if line.isEmpty then return ()
  let toks := (line.trimAscii.toString.splitOn " ").filter (· ≠ "")
  match toks with
  | [] => out.putStrLn ""; loop h out ss ns
  | "#" :: _ => out.putStrLn line.trimAscii.toString; loop h out ss ns
  | _ =>
    match respStep toks with
    | some a => out.putStrLn a; loop h out ss ns
    | none =>
      match netStep ns toks with
      | some (ns', a) => out.putStrLn a; loop h out ss ns'
      | none =>
        match storeStep ss toks with
        | some (ss', a) => out.putStrLn a; loop h out ss' ns
        | none => out.putStrLn "bad-op"; loop h out ss ns

def main : IO Unit := do
  let stdin ← IO.getStdin
  let stdout ← IO.getStdout
  loop stdin stdout {}
