import Driver.RespCmds
import Driver.StoreCmds
import Driver.NetCmds
import Driver.ConcCmds
import Driver.LtsCmds

open Driver

partial def loop (h : IO.FS.Stream) (out : IO.FS.Stream) (ss : SS) (ns : NS := {}) (cl : CL := {}) (ls : LS := {}) : IO Unit := do
  out.flush
  let line ← h.getLine
  if line.isEmpty then return ()
  let toks := (line.trimAscii.toString.splitOn " ").filter (· ≠ "")
  match toks with
  | [] => out.putStrLn ""; loop h out ss ns cl ls
  | "#" :: _ => out.putStrLn line.trimAscii.toString; loop h out ss ns cl ls
  | _ =>
    match respStep toks with
    | some a => out.putStrLn a; loop h out ss ns cl ls
    | none =>
      match netStep ns toks with
      | some (ns', a) => out.putStrLn a; loop h out ss ns' cl ls
      | none =>
        match storeStep ss toks with
        | some (ss', a) => out.putStrLn a; loop h out ss' ns cl ls
        | none =>
          match clStep cl toks with
          | some (cl', a) => out.putStrLn a; loop h out ss ns cl' ls
          | none =>
            match ltsStep ls toks with
            | some (ls', a) => out.putStrLn a; loop h out ss ns cl ls'
            | none => out.putStrLn "bad-op"; loop h out ss ns cl ls

def main : IO Unit := do
  let stdin ← IO.getStdin
  let stdout ← IO.getStdout
  loop stdin stdout {}
