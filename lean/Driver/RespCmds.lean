import Driver.Util

namespace Driver
open Resp

def outNat : Out Nat → String
  | .ok n => s!"ok {n}"
  | .incomplete => "incomplete"
  | .err e => "err " ++ errName e
  | .panic => "panic"

def outParse : Out (Frame × Nat) → String
  | .ok (f, n) => s!"ok {n} {frameToString f}"
  | .incomplete => "incomplete"
  | .err e => "err " ++ errName e
  | .panic => "panic"

def pfStr : PF → String
  | .frame f n => s!"frame {n} {frameToString f}"
  | .need => "need"
  | .err e => "err " ++ errName e
  | .panic => "panic"

def readResStr : ReadRes → String
  | .frame f => "frame " ++ frameToString f
  | .cleanEnd => "end"
  | .reset => "error reset"
  | .error e => "error " ++ errName e
  | .panic => "panic"

def cmdStr : Except CmdErr Cmd → String
  | .ok (.set k v) => s!"set {hexTok k} {hexTok v}"
  | .ok (.get k) => s!"get {hexTok k}"
  | .ok (.del ks) => "del " ++ " ".intercalate (ks.map hexTok)
  | .error .badFrame => "err badframe"
  | .error .badCommand => "err badcommand"
  | .error .badArgs => "err badargs"
  | .error .notUtf8 => "err notutf8"

/-- answer to one resp-mode request line, or `none` if the verb is not a resp verb -/
def respStep (toks : List String) : Option String :=
  match toks with
  | ["check", h] => (bytesOfHex h).map fun b => outNat (check b.toArray)
  | ["parse", h] => (bytesOfHex h).map fun b => outParse (parse b.toArray)
  | ["pf", h] => (bytesOfHex h).map fun b => pfStr (parseFrame b.toArray)
  | ["int", h, p] =>
    match bytesOfHex h, p.toNat? with
    | some b, some pos =>
      some (match getInteger b.toArray pos with
        | .ok (v, q) => s!"ok {v} {q}"
        | .incomplete => "incomplete"
        | .err e => "err " ++ errName e
        | .panic => "panic")
    | _, _ => none
  | ["encode", f] =>
    (frameOfString f).map fun fr =>
      match encode fr with
      | some b => hexTok b
      | none => "unimplemented"
  | ["conn", segs] =>
    let parts := if segs = "." then [] else segs.splitOn "|"
    match parts.mapM bytesOfHex with
    | some ss => some (";".intercalate ((readAll ss).map readResStr))
    | none => none
  | ["cmd", f] => (frameOfString f).map fun fr => cmdStr (Cmd.ofFrame fr)
  | ["utf8", h] => (bytesOfHex h).map fun b => if validUtf8 b then "valid" else "invalid"
  | _ => none

end Driver
